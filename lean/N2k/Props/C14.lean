import N2k.Lemmas.HandlersRx
import N2k.Lemmas.HandlersTP
/-!
# C14 — each received message reaches every matching handler exactly once

Model: `N2k/Model/Handlers.lean` (heap of `tMsgHandler` objects with `PGN`, `pNMEA2000`, `pNext`; per-bus `MsgHandlers`
head pointer; `AttachMsgHandler`/`DetachMsgHandler`/destructor/`RunMessageHandlers` as pointer code with faults).
Specification: `N2k/Spec/Handlers.lean` (`specRun`: per handler only "alive, PGN, bus it was last attached to").

`run` executes a client history; an operation on a dead object (which C++ does not allow) is skipped, every other
operation is executed by the pointer code.  All theorems hold for EVERY history `ops : List Op`, i.e. any number of
handler objects and bus objects, construction with or without the attaching constructor, re-attaching an attached
handler, attaching to another bus while attached, detaching twice, destroying while attached, re-using the address
of a destroyed handler.
-/
namespace N2k.C14
open N2k.Handlers

/-- After ANY history the pointer code has not faulted (no dead object dereferenced, every pointer walk terminated)
and the handler list of every bus object is well formed: following `pNext` from `MsgHandlers` reaches the null
pointer after visiting a duplicate-free list `l` of live objects (so the chain is acyclic) that consists of exactly
the live handlers whose `pNMEA2000` is that bus, in ascending PGN order (handlers for all PGNs, PGN 0, first);
a handler that is attached nowhere has `pNext = 0`. -/
theorem C14_list_invariant (ops : List Op) :
    ∃ w, run World.init ops = some w ∧
      (∀ b, ∃ l, Seg w (w.head b) l none ∧ l.Nodup ∧
        (∀ i, i ∈ l ↔ ∃ o, w.obj i = some o ∧ o.owner = some b) ∧
        l.Pairwise (fun i j => pgnOf w i ≤ pgnOf w j)) ∧
      (∀ i o, w.obj i = some o → o.owner = none → o.next = none) := by
  obtain ⟨w, hr, hi, _⟩ := run_ok ops inv_init
  refine ⟨w, hr, ?_, hi.free⟩
  intro b
  obtain ⟨l, hb⟩ := hi.bus b
  refine ⟨l, hb.chain, hb.nodup, ?_, hb.sorted⟩
  intro i
  rw [hb.mem i]
  constructor
  · exact ownerOf_some
  · rintro ⟨o, ho, hob⟩; rw [ownerOf_eq ho]; exact hob

/-- The members `PGN` and `pNMEA2000` of the live handler objects are, after any history, what the history
specification says: a handler is on the bus it was last attached to (by `AttachMsgHandler` or the attaching
constructor) unless it was detached or destroyed since; the plain callback is the one last set. -/
theorem C14_attached_where_specified (ops : List Op) :
    ∃ w, run World.init ops = some w ∧
      (∀ i, (w.obj i).map (fun o => (o.pgn, o.owner)) = (specRun SpecSt.init ops).h i) ∧
      w.cb = (specRun SpecSt.init ops).cb := by
  obtain ⟨w, hr, _, hv⟩ := run_ok ops inv_init
  rw [view_init] at hv
  refine ⟨w, hr, ?_, ?_⟩
  · intro i; rw [← hv]; rfl
  · rw [← hv]; rfl

/-- `RunMessageHandlers` after any history, for a message with PGN `pgn` on bus `bus`: no fault; the plain callback
runs exactly once iff one is set; `HandleMsg` runs for a duplicate-free list of handlers, and a handler is in that
list iff the history specification says it is alive, attached to `bus` and registered for PGN 0 or for `pgn`
(each matching handler exactly once, no other handler, no handler of the other bus objects). -/
theorem C14_dispatch_exact (ops : List Op) (bus : BusId) (pgn : Nat) :
    ∃ w l, run World.init ops = some w ∧
      dispatch w bus pgn = some (if (specRun SpecSt.init ops).cb bus then 1 else 0, l) ∧
      l.Nodup ∧ ∀ i, i ∈ l ↔ (specRun SpecSt.init ops).matching bus pgn i := by
  obtain ⟨w, hr, hi, hv⟩ := run_ok ops inv_init
  rw [view_init] at hv
  obtain ⟨l, hd, hn, hm, _⟩ := dispatch_ok hi bus pgn
  refine ⟨w, l, hr, ?_, hn, ?_⟩
  · rw [hd, ← hv]; rfl
  · intro i; rw [hm i, hv]

/-- END TO END over histories of client operations, configuration calls, FRAME ARRIVALS in the CAN driver and
`ParseMessages` polls, on any number of bus objects, any PGN-list configuration `c` and any initial receive side `r0`
(slots, mode bits, frames already waiting).  `nodeRun`: a poll reads the (at most `k`, a parameter of every poll) oldest waiting frames, runs the
receive path of C02 (`N2k.Rx.rx`: `SetN2kCANBufMsg` for single frames, fast packets of any number of interleaved senders,
TP.CM frames) on each and `RunMessageHandlers` for every message completed.  For EVERY history: no fault, and event by
event (`CallsAgree`): the calls made during an event are, in order, exactly one per message the receive side completes
in that event — none for an operation, a configuration call, an arrival, or a poll whose frames complete nothing
(fast-packet fragments, damaged or orphan frames, TP.CM, TP.DT, frames refused by the known-message gate) — each with
exactly that message, the plain callback once iff set, and `HandleMsg` of a duplicate-free list of handlers that is exactly
the set the history specification says is attached to that bus and registered for PGN 0 or the message's PGN at that
moment, the all-PGN handlers first.  Whether the library consumes the message itself (ISO request, address claim, group
function) plays no role.
PARTIAL in exactly one respect: the reassembly of a transport-protocol payload from TP.DT packets is the receiver of C10
(`N2k.TP`, a different state space, not composed here); its verdict is the INPUT annotation of a TP.DT frame ("last
in-sequence packet of a transfer carrying `m`"), honoured iff the session's slot is open in the C02 model (which decides
the announce gates: length ≤ 223, known-message mode).  Everything else is computed by the models. -/
theorem C14_what_is_dispatched_partial (c : BusId → Rx.Cfg) (r0 : RxSide) (evs : List Ev) :
    ∃ n calls, nodeRun c ⟨World.init, r0⟩ evs = some (n, calls) ∧
      CallsAgree calls (expected c SpecSt.init r0 evs) := by
  obtain ⟨n, calls, hr, _, hc⟩ := nodeRun_ok c evs ⟨World.init, r0⟩ inv_init
  exact ⟨n, calls, hr, hc⟩

/-- A transport-protocol control (60416) or data (60160) frame itself is never passed on, in any state: a TP.CM frame
completes nothing, a TP.DT frame completes nothing or the transported message named by the TP receiver. -/
theorem C14_transport_frames_not_dispatched (cfg : Rx.Cfg) (st : Rx.St) (now : Nat) (q : QFrame)
    (h : q.1.pgn = 60416 ∨ q.1.pgn = 60160) :
    (rxFrame cfg st now q).2 = none ∨ (q.1.pgn = 60160 ∧ (rxFrame cfg st now q).2 = q.2) := by
  have hh : Rx.handled cfg q.1 = false := by
    rcases h with h | h <;> simp [Rx.handled, Rx.isTP, h]
  have h2 : (Rx.rx cfg st now q.1).2 = none := by
    unfold Rx.rx; rw [hh]; simp only [Bool.false_eq_true, if_false]; split <;> rfl
  unfold rxFrame
  by_cases hd : q.1.pgn = 60160
  · rw [if_pos hd]
    cases hq : q.2 with
    | none => exact Or.inl h2
    | some m =>
      cases hs : tpSession st m with
      | none => left; simp only [hs]
      | some i => right; exact ⟨hd, by simp only [hs]⟩
  · rw [if_neg hd]; exact Or.inl h2

example : ∃ q : QFrame, q.1.pgn = 60416 ∨ q.1.pgn = 60160 := ⟨(⟨7, 60416, 1, 255, 8, [32, 9, 0, 2, 255, 5, 248, 1]⟩, none), Or.inl rfl⟩

/-- `ParseMessages` never takes a frame out of the driver without handing it to the receive path, whatever its batch size
`k` is (`MaxReadFramesOnParse`, 20 in the pinned tree; the property leaves it open): a poll handles the (at most) `k` oldest
waiting frames of its bus in order, leaves the rest waiting in order, and does not touch the other buses.  So every frame of
a burst of any length is handled exactly once, by this or a later poll. -/
theorem C14_poll_loses_no_frame (c : BusId → Rx.Cfg) (r : RxSide) (b : BusId) (now k : Nat) :
    r.drv b = (r.drv b).take k ++ (rxTrack c r (.poll b now k)).1.drv b ∧
    (rxTrack c r (.poll b now k)).2 =
      (rxBatch (effCfg c r.mode b) now (r.st b) ((r.drv b).take k)).2.map (fun m => (b, m)) ∧
    ∀ b', b' ≠ b → (rxTrack c r (.poll b now k)).1.drv b' = r.drv b' := by
  refine ⟨?_, rfl, ?_⟩
  · simp [rxTrack, upd]
  · intro b' hb; simp [rxTrack, upd, hb]

/-- handling a batch of frames is handling them one after the other: splitting a burst over polls changes nothing but
the time stamps -/
theorem C14_batches_compose (cfg : Rx.Cfg) (now : Nat) : ∀ (l1 l2 : List QFrame) (st : Rx.St),
    rxBatch cfg now st (l1 ++ l2) =
      ((rxBatch cfg now (rxBatch cfg now st l1).1 l2).1, (rxBatch cfg now st l1).2 ++ (rxBatch cfg now (rxBatch cfg now st l1).1 l2).2)
  | [], l2, st => by simp [rxBatch]
  | q :: l1, l2, st => by
    simp only [List.cons_append, rxBatch]
    rw [C14_batches_compose cfg now l1 l2]
    simp [List.append_assoc]

/-- The message-forwarding options (`SetForwardSystemMessages`, `SetForwardOnlyKnownMessages`, `SetForwardOwnMessages`:
mode bits 1, 2, 3 — any bit but 4) have no influence on which messages are handled. -/
theorem C14_forward_options_no_influence (c : BusId → Rx.Cfg) (r : RxSide) (b : BusId) (bit : Nat) (v : Bool)
    (h : bit ≠ 4) (b' : BusId) :
    effCfg c (rxTrack c r (.setMode b bit v)).1.mode b' = effCfg c r.mode b' ∧
    (rxTrack c r (.setMode b bit v)).1.st = r.st ∧ (rxTrack c r (.setMode b bit v)).1.drv = r.drv := by
  refine ⟨?_, rfl, rfl⟩
  simp only [effCfg, rxTrack, upd]
  by_cases hb : b' = b
  · subst hb; simp [Ne.symm h]
  · simp [hb]

example : (1 : Nat) ≠ 4 ∧ (2 : Nat) ≠ 4 ∧ (3 : Nat) ≠ 4 := by decide

/-! ## without any input: the node model of C10 as receive side (raw frames, TP payloads reassembled by the model) -/

/-- END TO END over RAW FRAME HISTORIES, no annotation: every bus object is a node of the C10 model (`N2k.TP.Node`: receive
slots, `SetN2kCANBufMsg` with `TestHandleTPMessage` — TP.CM RTS/BAM, TP.DT reassembly, CTS/EndOfMsgAck —, single frames, fast
packets, driver queue, clock, own sending); a history interleaves client operations on the handlers with steps of these nodes
(`TP.RxStep`: a frame handled, a frame queued, `ParseMessages`, clock change, `SendMsg`, address move) on any bus.  For EVERY
history, any initial nodes: no fault, and event by event the calls of `RunMessageHandlers` are, in order, exactly one per
message the node model hands to the application in that step (the entries its handler log `out` gains: single-frame,
fast-packet and transport-protocol payload deliveries alike) and none otherwise, each with exactly that message, the callback
once iff set and exactly the handlers the history specification says are attached to that bus and registered for PGN 0 or the
message's PGN, all-PGN handlers first.  With `C14_tp_receiver_states` + `C14_tp_payload_genuine` (C10's receiver theorem) a
call carrying a transport-protocol payload is made only for a complete in-order transfer of the frame history.
Trusted here: `N2k.TP` as a model of the receive path (tied to the code by C10's correspondence runs; the C14 engine executes
the composition with the C02 model, `C14_what_is_dispatched_partial`). -/
theorem C14_what_is_dispatched (r0 : TpSide) (evs : List (EvG (BusId × N2k.TP.RxStep))) :
    ∃ n calls, nodeRunG tpTrackSide (·.pgn) ⟨World.init, r0⟩ evs = some (n, calls) ∧
      CallsAgreeG (·.pgn) calls (expectedG tpTrackSide SpecSt.init r0 evs) := by
  obtain ⟨n, calls, hr, _, hc⟩ := nodeRunG_ok tpTrackSide (·.pgn) evs ⟨World.init, r0⟩ inv_init
  exact ⟨n, calls, hr, hc⟩

/-- the receiver invariant of C10 (`TP.NodeInv`: every open TP slot and every TP delivery made so far is explained by the
history of transport events) holds for every bus object after every history of the composed node -/
theorem C14_tp_receiver_states (r0 : TpSide) (h0 : TpSideInv r0) (evs : List (EvG (BusId × N2k.TP.RxStep)))
    (n : NodeG TpSide) (calls : List (List (CallG N2k.TP.Delivery)))
    (hr : nodeRunG tpTrackSide (·.pgn) ⟨World.init, r0⟩ evs = some (n, calls)) : TpSideInv n.r :=
  nodeRunG_inv tpTrackSide (·.pgn) TpSideInv (fun r e h => tpTrackSide_inv r e h) evs ⟨World.init, r0⟩ n calls h0 hr

/-- start states exist: nodes with free receive slots that have delivered nothing (`C10_receiver_inv_init`) -/
example (r0 : TpSide) (hs : ∀ b, (∀ a ∈ (r0 b).1.slots, a.free = true) ∧ (r0 b).1.out = [] ∧ (r0 b).2 = []) : TpSideInv r0 := by
  intro b
  obtain ⟨h1, h2, h3⟩ := hs b
  rw [h3]; exact N2k.TP.NodeInv.init _ h1 h2

/-- in such a state, a transport-protocol payload that a step hands to the handlers is genuine (C10): at most 223 bytes, exactly
`len` of them, and they are the packets — complete and in order — of ONE transfer of its source/destination pair with its PGN
and size, at some point of the frame history handled so far.  So no annotation is needed: which TP.DT frame completes which
message follows from the frames. -/
theorem C14_tp_payload_genuine (st : N2k.TP.Node × List Spec.TpEv) (h : N2k.TP.NodeInv st.1 st.2) (s : N2k.TP.RxStep) :
    ∀ d ∈ tpNew st s, d.tp = true →
      d.len ≤ 223 ∧ d.data.length = d.len ∧
      ∃ hst x, hst <+: (N2k.TP.rxStep st s).2 ∧ Spec.tpTrack d.src d.dst hst = some x ∧ x.pgn = d.pgn ∧ x.size = d.len ∧
        d.len ≤ x.pk.flatten.length ∧ d.data = x.pk.flatten.take d.len := by
  intro d hd ht
  exact (N2k.TP.rxStep_inv st h s).good d (List.mem_of_mem_drop hd) ht

/-! Non-vacuity: the theorems have no hypotheses; the examples show the model doing what the statements talk about. -/

/-- handlers 0 (all PGNs), 1 and 2 (PGN 5), 3 (PGN 9) attached to bus 0 in an awkward order, 1 then moved to bus 1,
3 destroyed while attached, its address re-used for a PGN-5 handler constructed onto bus 0 -/
def demoOps : List Op :=
  [.new 0 0 none, .new 1 5 none, .new 2 5 none, .new 3 9 (some 0), .attach 2 0, .attach 1 0, .attach 0 0,
   .attach 0 0, .attach 1 1, .destroy 3, .new 3 5 (some 0), .cb 0 true, .detach 2, .attach 2 0]

example : (run World.init demoOps).bind (fun w => dispatch w 0 5) = some (1, [0, 2, 3]) := by decide
example : (run World.init demoOps).bind (fun w => dispatch w 1 5) = some (0, [1]) := by decide
example : (run World.init demoOps).bind (fun w => dispatch w 0 9) = some (1, [0]) := by decide
example : (specRun SpecSt.init demoOps).matching 0 5 2 := ⟨5, by decide, Or.inr rfl⟩
example : ¬ (specRun SpecSt.init demoOps).matching 0 5 1 := by
  rintro ⟨p, h, _⟩
  have : (specRun SpecSt.init demoOps).h 1 = some (5, some 1) := by decide
  rw [this] at h; cases h

/-- two fast-packet senders (sources 1 and 2, PGN 129029, 10 bytes = 2 frames each) interleaved frame by frame on bus 0
with a lone TP.DT frame in between; handler 0 (all PGNs) and handler 1 (PGN 129029) are attached to bus 0, handler 2
(PGN 130306) too, handler 3 (all PGNs) to bus 1; a forwarding option is switched on.  Arrivals cause no call; the poll
causes two calls, the reassembled message of each sender to handlers 0 and 1. -/
def demoEvs : List Ev :=
  [.op (.new 1 129029 (some 0)), .op (.new 0 0 (some 0)), .op (.new 2 130306 (some 0)), .op (.new 3 0 (some 1)),
   .setMode 0 2 true,
   .arrive 0 ⟨6, 129029, 1, 255, 8, [0, 10, 1, 2, 3, 4, 5, 6]⟩ none,
   .arrive 0 ⟨6, 129029, 2, 255, 8, [64, 10, 21, 22, 23, 24, 25, 26]⟩ none,
   .arrive 0 ⟨7, 60160, 9, 255, 8, [1, 1, 2, 3, 4, 5, 6, 7]⟩ none,
   .arrive 0 ⟨6, 129029, 1, 255, 8, [1, 7, 8, 9, 10, 255, 255, 255]⟩ none,
   .arrive 0 ⟨6, 129029, 2, 255, 8, [65, 27, 28, 29, 30, 255, 255, 255]⟩ none,
   .poll 1 1000 20, .poll 0 1001 20]

def demoRx : RxSide := ⟨fun _ _ => false, fun _ => Rx.init 5, fun _ => []⟩

example : (nodeRun (fun _ => {}) ⟨World.init, demoRx⟩ demoEvs).map (·.2) =
    some [[], [], [], [], [], [], [], [], [], [], [],
      [⟨0, ⟨6, 129029, 1, 255, 10, [1, 2, 3, 4, 5, 6, 7, 8, 9, 10]⟩, 0, [0, 1]⟩,
       ⟨0, ⟨6, 129029, 2, 255, 10, [21, 22, 23, 24, 25, 26, 27, 28, 29, 30]⟩, 0, [0, 1]⟩]] := by decide +kernel

/-- the example of `Props/C10.lean` behind two handlers: two 9-byte RTS transfers from the sources 40 and 41 to the node (address
20) interleave and complete (41 first), a third one from 42 is broken by an out-of-sequence packet, a BAM from 43 announces too
much; handler 0 (all PGNs) and handler 1 (PGN 126996) on bus 0, handler 2 (all PGNs) on bus 1 -/
def demoTpNode : N2k.TP.Node :=
  { s := { flavor := .t64, now := 1000, listenOnly := false, claimMode := true, lists := {},
           devs := [{ source := 20, name := 1, claimTimer := N2k.Time.Sched.disabled .t64, endSource := 19 }],
           ring := { n := 40, buf := fun _ => ⟨0, 0, []⟩, read := 0, write := 0 }, drv := { script := [], dflt := true, sent := [] } },
    tp := fun _ => N2k.TP.TpDev.init .t64, slots := List.replicate 5 {}, onlyKnown := false, rxq := [], out := [] }

open N2k.TP in
def demoTpEvs : List (EvG (BusId × N2k.TP.RxStep)) :=
  [.op (.new 0 0 (some 0)), .op (.new 1 126996 (some 0)), .op (.new 2 0 (some 1)),
   .rx (0, .frame (cmIn 40 20 [16, 9, 0, 2, 0xff, 0x14, 0xf0, 0x01])), .rx (0, .frame (cmIn 41 20 [16, 9, 0, 2, 0xff, 0x16, 0xf0, 0x01])),
   .rx (0, .frame (dtIn 40 20 [1, 1, 2, 3, 4, 5, 6, 7])), .rx (0, .frame (dtIn 41 20 [1, 11, 12, 13, 14, 15, 16, 17])),
   .rx (0, .frame (cmIn 42 20 [16, 20, 0, 3, 0xff, 0x14, 0xf0, 0x01])), .rx (0, .time 1040),
   .rx (0, .frame (dtIn 41 20 [2, 18, 19, 0xff, 0xff, 0xff, 0xff, 0xff])), .rx (0, .frame (dtIn 42 20 [2, 0, 0, 0, 0, 0, 0, 0])),
   .rx (0, .frame (cmIn 43 255 [32, 0x2c, 1, 43, 0xff, 0x14, 0xf0, 0x01])), .rx (0, .frame (dtIn 43 255 [1, 9, 9, 9, 9, 9, 9, 9])),
   .rx (0, .frame (dtIn 42 20 [1, 0, 0, 0, 0, 0, 0, 0])), .rx (0, .frame (dtIn 40 20 [2, 8, 9, 0xff, 0xff, 0xff, 0xff, 0xff]))]

example : ((nodeRunG tpTrackSide (·.pgn) ⟨World.init, fun _ => (demoTpNode, [])⟩ demoTpEvs).map fun r =>
      r.2.flatten.map fun k => (k.bus, k.msg.pgn, k.msg.src, k.msg.len, k.msg.data, k.cb, k.hs)) =
    some [(0, 126998, 41, 9, [11, 12, 13, 14, 15, 16, 17, 18, 19], 0, [0]),
          (0, 126996, 40, 9, [1, 2, 3, 4, 5, 6, 7, 8, 9], 0, [0, 1])] := by rfl

end N2k.C14
