"""C++ -> Lean translator for the PGN classification tables of src/NMEA2000.cpp.

Regenerates lean/N2k/Gen/PgnTables.lean on every run from the preprocessed source (default configuration).
A construct it does not understand raises (reported as a broken proof obligation, never skipped)."""
import os, re, subprocess

SWITCH_FUNCS = ['IsSingleFrameSystemMessage', 'IsFastPacketSystemMessage', 'IsDefaultSingleFrameMessage',
                'IsMandatoryFastPacketMessage', 'IsDefaultFastPacketMessage', 'IgnoreBroadcastISORequest']
ARRAYS = ['DefTransmitMessages', 'DefReceiveMessages']


def lname(n):
    return n[0].lower() + n[1:]


def preprocess(src):
    r = subprocess.run(['g++', '-std=c++11', '-E', '-P', '-I' + src, os.path.join(src, 'NMEA2000.cpp')],
                       stdout=subprocess.PIPE, stderr=subprocess.PIPE, text=True)
    if r.returncode != 0:
        raise RuntimeError('preprocess failed: ' + r.stderr[-400:])
    return r.stdout


def body_of(text, header_re):
    m = re.search(header_re, text)
    if not m:
        raise RuntimeError('not found: ' + header_re)
    i = text.index('{', m.end() - 1)
    depth, j = 0, i
    while True:
        if text[j] == '{':
            depth += 1
        elif text[j] == '}':
            depth -= 1
            if depth == 0:
                return text[i + 1:j]
        j += 1


def num(tok):
    tok = tok.strip()
    m = re.fullmatch(r'(0[xX][0-9a-fA-F]+|\d+)[uUlL]*', tok)
    if not m:
        raise RuntimeError('not an integer literal: %r' % tok)
    return int(m.group(1), 0)


def parse_switch(body, name):
    # exactly:  switch (X) { case N: ... case N: return true; } return false;
    norm = re.sub(r'\s+', ' ', body).strip()
    m = re.fullmatch(r'switch \( ?(\w+) ?\) \{ ((?:case [^:]+: ?)+)return true; \} return false;', norm)
    if not m:
        raise RuntimeError('%s: body is not a pure case table: %s' % (name, norm[:120]))
    return [num(c) for c in re.findall(r'case ([^:]+):', m.group(2))]


def parse_array(text, name):
    m = re.search(r'const unsigned long %s\s*\[\]\s*(?:PROGMEM)?\s*=\s*\{([^}]*)\}' % name, text)
    if not m:
        raise RuntimeError('array %s not found' % name)
    vals = [num(v) for v in m.group(1).split(',') if v.strip()]
    if not vals or vals[-1] != 0 or 0 in vals[:-1]:
        raise RuntimeError('array %s is not 0-terminated exactly once' % name)
    return vals[:-1]


EXTRACT_CPP = r"""
// Extraction by EXECUTION: the translation unit under test is included textually, so that its file-local tables are
// visible, and every classification function is evaluated on the whole 18-bit PGN space.
#include "NMEA2000.cpp"
#include <stdio.h>
typedef bool (*fn_t)(unsigned long);
static void sweep(const char *name, fn_t f) {
  printf("%s:", name);
  for (unsigned long p = 0; p < (1UL << 18); p++) if (f(p)) printf(" %lu", p);
  printf("\n");
}
static void arr(const char *name, const unsigned long *a) {
  printf("%s:", name);
  for (int i = 0; a[i] != 0 && i < 4096; i++) printf(" %lu", a[i]);
  printf("\n");
}
int main() {
  sweep("IsSingleFrameSystemMessage", IsSingleFrameSystemMessage);
  sweep("IsFastPacketSystemMessage", IsFastPacketSystemMessage);
  sweep("IsDefaultSingleFrameMessage", IsDefaultSingleFrameMessage);
  sweep("IsMandatoryFastPacketMessage", IsMandatoryFastPacketMessage);
  sweep("IsDefaultFastPacketMessage", IsDefaultFastPacketMessage);
  sweep("IgnoreBroadcastISORequest", IgnoreBroadcastISORequest);
  sweep("IsProprietaryFastPacketMessage", IsProprietaryFastPacketMessage);
  arr("DefTransmitMessages", DefTransmitMessages);
  arr("DefReceiveMessages", DefReceiveMessages);
  return 0;
}
"""


def extract_by_execution(src):
    """compile NMEA2000.cpp (included textually) with a sweeping main, linked with the sources it depends on"""
    import hashlib, tempfile
    h = hashlib.sha256()
    deps = ['N2kMsg.cpp', 'N2kStream.cpp', 'N2kTimer.cpp', 'N2kGroupFunction.cpp', 'N2kGroupFunctionDefaultHandlers.cpp', 'N2kMessages.cpp']
    for fn in sorted(os.listdir(src)):
        if fn.endswith(('.h', '.tpp')) or fn == 'NMEA2000.cpp' or fn in deps:
            h.update(fn.encode()); h.update(open(os.path.join(src, fn), 'rb').read())
    h.update(EXTRACT_CPP.encode())
    cache_dir = os.path.join(os.path.dirname(os.path.abspath(__file__)), '..', '..', 'build', 'translate')
    os.makedirs(cache_dir, exist_ok=True)
    cache = os.path.join(cache_dir, 'pgn_tables_%s.txt' % h.hexdigest()[:24])
    if os.path.exists(cache):
        return open(cache).read()
    with tempfile.TemporaryDirectory() as td:
        cpp = os.path.join(td, 'extract.cpp')
        open(cpp, 'w').write(EXTRACT_CPP)
        exe = os.path.join(td, 'extract')
        r = subprocess.run(['g++', '-std=c++11', '-O0', '-w', '-I' + src, cpp] + [os.path.join(src, d) for d in deps] + ['-o', exe],
                           stdout=subprocess.PIPE, stderr=subprocess.STDOUT, text=True)
        if r.returncode != 0:
            raise RuntimeError('extraction program does not compile: ' + r.stdout[-600:])
        r = subprocess.run([exe], stdout=subprocess.PIPE, stderr=subprocess.PIPE, text=True, timeout=120)
        if r.returncode != 0:
            raise RuntimeError('extraction program failed: ' + r.stderr[-300:])
    tmp = cache + '.%d' % os.getpid()
    open(tmp, 'w').write(r.stdout)
    os.replace(tmp, cache)
    return r.stdout


def ranges_of(vals):
    out = []
    for v in vals:
        if out and out[-1][1] + 1 == v:
            out[-1][1] = v
        else:
            out.append([v, v])
    return out


def run(src, gendir):
    """Primary route: execution of the source's own functions over all 2^18 PGNs (robust against any refactoring).
    Secondary: the textual reading (regex over the preprocessed source) must agree wherever it still parses."""
    got = {}
    for line in extract_by_execution(src).split('\n'):
        if ':' in line:
            k, v = line.split(':', 1)
            got[k] = [int(x) for x in v.split()]
    for k in SWITCH_FUNCS + ARRAYS + ['IsProprietaryFastPacketMessage']:
        if k not in got:
            raise RuntimeError('extraction gave no table for ' + k)
    textual = {'agree': 0, 'unparsed': []}
    try:
        text = preprocess(src)
    except Exception:
        text = None
    for f in SWITCH_FUNCS:
        try:
            vals = parse_switch(body_of(text, r'bool %s\s*\(\s*unsigned long \w+\s*\)\s*\{' % f), f)
            if sorted(set(vals)) != sorted(got[f]):
                raise RuntimeError('textual and executed readings of %s differ' % f)
            textual['agree'] += 1
        except RuntimeError as e:
            if 'differ' in str(e):
                raise
            textual['unparsed'].append(f)
        except Exception:
            textual['unparsed'].append(f)
    out = ['/-! GENERATED by tools/translators/pgn_tables.py from src/NMEA2000.cpp on every run (the functions are executed on all',
           '2^18 PGNs, the arrays are read to their terminator). Do not edit. -/', 'namespace N2k.Gen', '']
    n_items = 0
    for f in SWITCH_FUNCS:
        n_items += len(got[f])
        out.append('def %s : List Nat := [%s]' % (lname(f), ', '.join(map(str, got[f]))))
    for a in ARRAYS:
        n_items += len(got[a])
        out.append('def %s : List Nat := [%s]' % (lname(a), ', '.join(map(str, got[a]))))
    rg = ranges_of(got['IsProprietaryFastPacketMessage'])
    n_items += len(rg)
    out.append('/-- maximal ranges of PGNs (below 2^18) for which `IsProprietaryFastPacketMessage` answers true -/')
    out.append('def proprietaryFastPacketRanges : List (Nat × Nat) := [%s]' % ', '.join('(%d, %d)' % (a, b) for a, b in rg))
    out.append('def isProprietaryFastPacketMessage (pgn : Nat) : Bool := proprietaryFastPacketRanges.any fun r => r.1 ≤ pgn && pgn ≤ r.2')
    consts = {}
    for c, rx in [('maxCanBusAddress', r'#define\s+N2kMaxCanBusAddress\s+(\w+)'), ('nullCanBusAddress', r'#define\s+N2kNullCanBusAddress\s+(\w+)')]:
        hdr = open(os.path.join(src, 'NMEA2000.h')).read() + open(os.path.join(src, 'N2kMsg.h')).read() + open(os.path.join(src, 'N2kDef.h')).read()
        m = re.search(rx, hdr)
        if m:
            consts[c] = num(m.group(1))
    for c, v in sorted(consts.items()):
        out.append('def %s : Nat := %d' % (c, v))
    out += ['', 'end N2k.Gen', '']
    os.makedirs(gendir, exist_ok=True)
    path = os.path.join(gendir, 'PgnTables.lean')
    new = '\n'.join(out)
    if not os.path.exists(path) or open(path).read() != new:
        open(path, 'w').write(new)
    return {'items_translated': n_items, 'tables': len(SWITCH_FUNCS) + len(ARRAYS) + 1, 'fallbacks': 0, 'obligations': 0,
            'method': 'execution over 2^18 PGNs', 'textual_cross_check': textual}


if __name__ == '__main__':
    import sys
    print(run(sys.argv[1] if len(sys.argv) > 1 else '/repo/src', os.path.join(os.path.dirname(__file__), '..', '..', 'lean', 'N2k', 'Gen')))
