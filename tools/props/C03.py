"""C03 - address claiming converges to unique addresses, the lower NAME wins, own-address changes are reported."""
SPEC = {
    'engine': 'claim', 'harness': 'claim.cpp',
    'repo_srcs': ['N2kMsg.cpp', 'N2kStream.cpp', 'N2kMessages.cpp', 'N2kTimer.cpp', 'N2kGroupFunction.cpp', 'N2kGroupFunctionDefaultHandlers.cpp', 'NMEA2000.cpp'],
    'variants': ['', 't32'],
    'lean_modules': ['N2k.Props.Consts.C03', 'N2k.Props.C03'], 'props_files': ['N2k/Props/Consts/C03.lean', 'N2k/Props/C03.lean'],
    'translators': ['constants', 'pgn_tables'],
    'case_start': ['reset', 'bus'],
    'timeout': 3000,
    'trusted_base': [
        "model N2k/Model/Claim.lean transcribes GetNextAddress, HandleISOAddressClaim (incl. the equal-NAME device-instance bump), "
        "HandleCommandedAddress (both overloads, WITH the fix: commit for C03:commanded-onto-sibling), FindSourceDeviceIndex, "
        "StartAddressClaim()/Restart(), Open(), the claim-relevant part of ParseMessages, SetMode/SetN2kSource/"
        "ReadResetAddressChanged by hand, on top of N2k/Model/Send.lean (SendMsg gate, StartAddressClaim(iDev), IsAddressClaimStarted, "
        "both timer flavours); tied to the compiled code by the differential run only",
        "frozen specification lean/N2k/Spec/Iso11783.lean (wire format of PGN 60928, arbitration rule, commanded address) and its C++ "
        "twin in harness/claim.cpp (struct Foreign), both written from the public description of ISO 11783-5 / J1939-81",
        "N2k/Model/ClaimRx.lean composes the claim instance with the C02 receive-slot model N2k/Model/Rx.lean (level-1 engine ops go "
        "through it) and adds the application's SendMsg; the n-node bus theorems are stated on the claim instance (slot hypothesis "
        "discharged separately by C03_claim_not_lost)",
        "N2k/Model/Bus.lean: the bus is an atomic broadcast with FIFO inboxes; frames other than PGN 60928 (heartbeat, ISO-TP flow "
        "control) are not on the model bus; the ISO-TP reassembly of PGN 65240 is NOT modelled (the harness feeds BAM/RTS+DT frames to "
        "the real code, the model receives the reassembled (destination, NAME, address) triple)",
        "fuel-bounded GetNextAddress loop (600 passes): C03_next_address proves dist+1 <= 253 passes suffice for well-formed devices; "
        "for ill-formed configurations (addresses 252/253/255 set by the application) only the differential run speaks",
    ],
    'assumptions': [
        "bus hypotheses of C03_unique_at_quiescence (BusOK): atomic broadcast to every node that is on the bus, no loss/reordering, "
        "the CAN driver accepts every claim frame and the send queue is empty (claim sends not refused), PGN 60928 not declared "
        "fast-packet by the application, claimant modes (NodeOnly/ListenAndNode), NAMEs < 2^64, configured addresses 0..251 or 254 and "
        "distinct among the devices of one instance, foreign next-address choice < 256",
        "a node that is not open / not started has no address on the bus, receives nothing and announces every device when it opens",
        "one received item (claim frame or commanded-address message) per ParseMessages call in the bus model",
        "a receive slot is free or recyclable (oldest unfinished message >= 100 ms old, modulo 2^32) when a claim / commanded "
        "address arrives (C03_claim_not_lost / C03_commanded_not_lost; needed: C03_claim_lost_when_slots_busy). The class with all "
        "5 slots taken by unfinished messages younger than 100 ms is outside the property's quantifier: generated, compared with "
        "the model, not judged (counter rx_slots_busy_not_judged; notes/C03_rx_slots_busy_observation.md)",
        "liveness is proved only for the two-node contest (C03_converges_two_nodes / C03_converges_two_nodes_lib_moves: one-device library "
        "instance with the lower / higher NAME vs a foreign node, crossed claims, every delivery schedule, bound 4 effective deliveries; the "
        "loser ends at the next address or at 254, change latched; C03_converges_two_nodes_lib_lib: the same for two one-device "
        "library instances; C03_converges_two_nodes_timed: library vs library with polls and clock advances interleaved - claim timer "
        "expiry during the contest only changes the loser's end-of-search address; C03_converges_two_nodes_timed_lib_keeps / "
        "_timed_lib_moves: the same lift for library vs foreign node); for n nodes "
        "C03_converges_partial is the per-device progress measure; "
        "convergence is explored by the harness (all schedules of 2-3 claimants, sampled 4-6, full-range wall)",
        "dm_None; uint8_t address arithmetic; LP64",
    ],
}
MANIFEST = {
    'text': "Kernel-checked for ANY number of nodes and EVERY interleaving of deliver/poll/time/commanded-address/restart steps: on a "
            "bus of library instances (any number of devices each, transcribed ParseMessages/HandleISOAddressClaim/GetNextAddress/"
            "HandleCommandedAddress/Open) and foreign ISO 11783-5 nodes (arbitrary next-address choice), the invariant 'two nodes "
            "holding one valid address have a claim of one of them pending at the other' is preserved by every step, hence in every "
            "reachable state with empty inboxes no two claimants on different nodes share an address 0..251, devices of one instance "
            "never share a valid address, and every address is 0..251 or 254 (abstract core inv_step/unique_at_quiescence + refinement "
            "from the library step through the real frame encoding). GetNextAddress: termination measure, first free address in cyclic "
            "order with 251->0 wrap, 254 exactly at the end-of-search address. Arbitration: lower own NAME keeps and re-claims, higher "
            "moves to GetNextAddress and claims / cannot-claim. Every own-address change sets AddressChanged in the same step; frames are "
            "stamped with the device's current source. Correspondence: one real instance (1..9 devices, both timer builds, origins "
            "near 2^32) and whole buses of real instances + reference ISO nodes under all schedules (2-3 claimants) / sampled schedules "
            "(4-6) / fully occupied range, compared line by line with the model, plus a model-independent oracle (uniqueness at "
            "quiescence, lower NAME keeps, change reported, frame carries the address GetN2kSource reports at send time, nothing but "
            "claims from an address above 251). Also: a claim / commanded address is handled whenever a receive slot is free or "
            "recyclable modulo 2^32 (claim contention under receive-slot pressure across the clock wrap), and a device above 251 "
            "sends nothing but claims whatever source the application preset.",
    'design_ref': 'DESIGN.md section 4, C03',
    'note': "partial: C03_converges_partial - liveness is proved for the two-node contest only (C03_converges_two_nodes, _lib_moves, _lib_lib, _timed, _timed_lib_keeps, _timed_lib_moves, "
            "every delivery schedule, 4 effective deliveries); for n nodes only the per-device progress measure. Trusted: Lean kernel; hand model validated by the differential runs; ISO 11783-5 spec file; ISO-TP reassembly "
            "of the commanded address and non-claim traffic are outside the model. Fixed on the tree the model describes: "
            "C03:commanded-onto-sibling (HandleCommandedAddress took an address held by a sibling device).",
}
