import N2k.Lemmas.ClaimReport
/-! The arbitration decision of `HandleISOAddressClaim` with its exact effect (moved here so that the convergence lemmas
can use it; `Props/C03.lean` restates it as `C03_arbitration`). -/
namespace N2k.Bus
open N2k.Send N2k.Time N2k.Claim

theorem handleClaim_arbitration (x : Inst) (ok : LibOK x) (ho : x.s.openState = 3) (src nm i : Nat) (d : Dev)
    (hv : src ≤ 251) (hf : findSourceDev x.s.devs src = some i) (hd : x.s.devs[i]? = some d) :
    (d.name < nm →
      (handleClaim x src nm).s.devs.map (fun d => (d.name, d.source)) = x.s.devs.map (fun d => (d.name, d.source)) ∧
      (handleClaim x src nm).s.drv.sent = x.s.drv.sent ++ [frameOfClaim (d.name, src)]) ∧
    (nm < d.name →
      let r := (search false (siblings x.s.devs i) searchFuel d.source d.endSource).source
      r ≠ src ∧ (r = 254 ∨ (r ≤ 251 ∧ (siblings x.s.devs i).contains r = false)) ∧
      (∃ d', (handleClaim x src nm).s.devs[i]? = some d' ∧ d'.name = d.name ∧ d'.source = r) ∧
      (handleClaim x src nm).addressChanged = true ∧
      (handleClaim x src nm).s.drv.sent = x.s.drv.sent ++ [frameOfClaim (d.name, r)]) := by
  have dok := ok.dev hd
  obtain ⟨d0, hd0, hsrc⟩ := findSourceDev_some hf
  rw [hd] at hd0; cases hd0
  have h254 : ¬ src = Gen.nullCanBusAddress := by unfold Gen.nullCanBusAddress; omega
  have hlen := (List.getElem?_eq_some_iff.mp hd).1
  constructor
  · intro hlt
    unfold handleClaim
    simp only [h254, ↓reduceIte, hf, hd, hlt]
    rw [sendClaim_spec x.s ok.send i d hd dok.src_lt]
    refine ⟨?_, by rw [claimFrameL_eq d dok.src_lt, hsrc]⟩
    apply List.ext_getElem?
    intro k
    simp only [List.getElem?_map]
    by_cases hk : k = i
    · subst hk; simp [List.getElem?_set_self hlen, hd, isACS_name, isACS_source]
    · simp [List.getElem?_set_ne (Ne.symm hk)]
  · intro hgt r
    have hnlt : ¬ d.name < nm := by omega
    have hne : ¬ d.name = nm := by omega
    have hs' : d.source ≤ 251 := by omega
    have so := search_ok false (siblings x.s.devs i) d.source d.endSource dok.2.1 dok.2.2
    have hdist : dist d.source d.endSource ≤ 251 := by unfold dist; omega
    have p := search_post false (siblings x.s.devs i) (dist d.source d.endSource) searchFuel d.source d.endSource hs'
      (dok.2.2 hs') rfl (by unfold searchFuel; omega)
    have v := p.valid hs' (dok.2.2 hs')
    have hx1 : loseAddress x i d nm = getNextAddress x i false := by unfold loseAddress; rw [if_neg hne]
    let sr := search false (siblings x.s.devs i) searchFuel d.source d.endSource
    let nd : Dev := { d with source := sr.source, endSource := sr.endSource }
    have hg : getNextAddress x i false =
        { s := { x.s with devs := x.s.devs.set i nd }, addressChanged := x.addressChanged || sr.changed,
          devInfoChanged := x.devInfoChanged } := by
      unfold getNextAddress; simp only [hd, so.done, ↓reduceIte]; rfl
    have g := getNextAddress_ok x ok i false
    have hdi : (getNextAddress x i false).s.devs[i]? = some nd := by
      rw [hg]; simp [List.getElem?_set_self hlen]
    have hop : (getNextAddress x i false).s.openState = 3 := by rw [g.2.openState]; exact ho
    have hfinal : handleClaim x src nm =
        { getNextAddress x i false with s := startAddressClaim (getNextAddress x i false).s i } := by
      unfold handleClaim
      simp only [h254, ↓reduceIte, hf, hd, hnlt, hx1]
    rw [hfinal, startAddressClaim_spec _ g.1.send hop i _ hdi (g.1.dev hdi).src_lt]
    have hlen' : i < (getNextAddress x i false).s.devs.length := by rw [g.2.len]; exact hlen
    refine ⟨by rw [← hsrc]; exact v.2, v.1, ⟨_, List.getElem?_set_self hlen', rfl, rfl⟩, ?_, ?_⟩
    · rw [hg]
      show (x.addressChanged || sr.changed) = true
      rw [show sr.changed = true from p.changed]; simp
    · simp only [g.2.sent]
      rw [claimFrameL_eq _ (g.1.dev hdi).src_lt]


end N2k.Bus
