// C18 harness: a REAL tN2kDeviceList attached to a vh::MockN2k (open, settled, virtual clock). Messages are handed to
// tN2kDeviceList::HandleMsg directly (the same entry tNMEA2000::RunMessageHandlers uses).
// ops:
//   reset <canSend> <now>    new node + new list; canSend=0: listen-only node (every SendMsg fails); clock = now -> ok
//   t <ms>                   advance the virtual clock                                                          -> ok
//   msg <pgn> <src> <hex>    deliver a message with this payload                                                 -> n= p= u= req=
//   claim <src> <name16hex>  = msg 60928 src <name little endian>
//   data <src> <pgn>         = msg pgn src -
//   bysrc a | byname n16hex | byids man uniq | byprod man code a  -> dump of the found device | -
//   last a -> GetDeviceLastMessageTime ; count -> Count() ; upd -> ReadResetIsListUpdated()
// Oracle (independent of the Lean model, from the property statement): reference maps name<->source updated by
// "latest claim wins, displaced NAME forgotten", first product information after the binding, latest configuration
// information / PGN lists since the binding (decoded by reference decoders written from the PGN layouts), checked against
// FindDeviceByName/BySource and the getters after every message; uniqueness of non-zero NAMEs over all 254 sources;
// list-updated flag raised whenever the view through non-zero NAMEs changed. Memory safety: ASan (exact-size heap
// strings inside the library), reported through the ASan report callback with the input class of the current op.
#include "node.h"
#include "N2kDeviceList.h"
#include <unistd.h>
#if defined(__SANITIZE_ADDRESS__)
#include <sanitizer/asan_interface.h>
#define VH_ASAN 1
#endif

using namespace vh;
static Ctx C;

// Objects created with `new` (the list entries) start with a known fill pattern instead of whatever the allocator leaves: a member
// the constructor forgets then has a defined, unfavourable value. The pattern is chosen per case from the reset line (0x00 / 0xA5 /
// 0xBE), so a replay reproduces it; code without uninitialised reads cannot depend on it (the model has no such input).
static unsigned char g_fill = 0xBE;
#ifdef N2K_VERIF_MEMCHECK   // build that runs under valgrind memcheck: leave fresh memory uninitialised, so that memcheck can see a read of it
static void *filledNew(size_t n) { void *p = malloc(n ? n : 1); if (!p) abort(); (void)g_fill; return p; }
#else
static void *filledNew(size_t n) { void *p = malloc(n ? n : 1); if (!p) abort(); memset(p, g_fill, n); return p; }
#endif
void *operator new(size_t n) { return filledNew(n); }
void *operator new[](size_t n) { return filledNew(n); }
void operator delete(void *p) noexcept { free(p); }
void operator delete[](void *p) noexcept { free(p); }
void operator delete(void *p, size_t) noexcept { free(p); }
void operator delete[](void *p, size_t) noexcept { free(p); }

// ------------------------------------------------------------------------------------------------ real objects
struct DL : public tN2kDeviceList {
  explicit DL(tNMEA2000 *n) : tN2kDeviceList(n) {}
  bool pending() const { return HasPendingRequests; }
  bool updated() const { return ListUpdated; }
  static std::string str(const char *s) { return s ? hex((const unsigned char *)s, strlen(s)) : std::string("null"); }
  static std::string lst(const unsigned long *p) {
    if (!p) return "null"; if (!*p) return "-";
    std::string r; for (; *p; p++) { if (!r.empty()) r += ','; r += std::to_string(*p); } return r;
  }
  // Everything is read through the PUBLIC interface: the `const tNMEA2000::tDevice *` returned by the public Find* methods and
  // its virtual getters. Only the two loaded flags (no public getter on tDevice) are peeked from the internal class, as extras.
  std::string dump(const tNMEA2000::tDevice *d) const {
    if (!d) return "-";
    char b[160]; std::string r;
    const tInternalDevice *in = static_cast<const tInternalDevice *>(d);
    snprintf(b, sizeof b, "s=%u n=%016llx mc=%u un=%lu ct=%lu pl=%d v=%u c=%u", d->GetSource(), (unsigned long long)d->GetName(), (unsigned)d->GetManufacturerCode(),
             (unsigned long)d->GetUniqueNumber(), d->GetCreateTime(), in->HasProductInformation() ? 1 : 0, d->GetN2kVersion(), d->GetProductCode()); r = b;
    r += " id=" + str(d->GetModelID()) + " sw=" + str(d->GetSwCode()) + " mv=" + str(d->GetModelVersion()) + " sn=" + str(d->GetModelSerialCode());
    snprintf(b, sizeof b, " cl=%u le=%u cf=%d", d->GetCertificationLevel(), d->GetLoadEquivalency(), in->HasConfigurationInformation() ? 1 : 0); r += b;
    r += " man=" + str(d->GetManufacturerInformation()) + " i1=" + str(d->GetInstallationDescription1()) + " i2=" + str(d->GetInstallationDescription2());
    r += " tx=" + lst(d->GetTransmitPGNs()) + " rx=" + lst(d->GetReceivePGNs());
    return r;
  }
};
static MockN2k *N = nullptr;
static DL *L = nullptr;

// ------------------------------------------------------------------------------------------- reference (oracle)
struct Prod { bool known = false; unsigned ver = 0, code = 0, cert = 0, load = 0; std::string s[4]; };
struct Info {
  bool hasProd = false; Prod prod;
  int conf = 0;  // 0 none since binding, 1 known, 2 unknown (malformed / not decodable message seen last)
  std::string cs[3]; bool cnull[3] = {false, false, false};   // man, inst1, inst2 (empty field: null or "")
  int tx = 0, rx = 0; std::vector<unsigned long> txl, rxl;
  bool parked = false;   // when the NAME claimed this address the list already showed it there (entry parked by an earlier displacement)
};
static uint64_t bySrc[254];                 // 0 = no requirement
static std::map<uint64_t, int> byName;
static Info info[254];
static std::string kind = "none";           // input class of the current message op
// a claim that is not 8 bytes long has no NAME by the layout; what the list reads out of it is not part of the statement,
// so the addresses it touched (and the all-ones NAME a short read yields) carry no product-information requirement afterwards
static bool taintSrc[254]; static bool taintOnes = false;

// name requests: an entry without NAME is asked for its address claim at most once when it is reserved and 20 times afterwards; the
// sequence starts again only when the source was silent for 60 s ("if device has been off and appears again", HandleMsg)
struct NameReq { bool active = false; long cnt = 0; uint64_t last = 0; };
static NameReq nameReq[254];
static void refReset() {
  for (auto &x : nameReq) x = NameReq();
  memset(bySrc, 0, sizeof bySrc); byName.clear(); for (auto &i : info) i = Info(); memset(taintSrc, 0, sizeof taintSrc); taintOnes = false; }
static void forgetSrc(int s) { if (bySrc[s]) { byName.erase(bySrc[s]); bySrc[s] = 0; } info[s] = Info(); }
static void forgetName(uint64_t n) { auto it = byName.find(n); if (it != byName.end()) { bySrc[it->second] = 0; info[it->second] = Info(); byName.erase(it); } }

static uint64_t le64(const std::vector<unsigned char> &d) { uint64_t v = 0; for (int i = 7; i >= 0; i--) v = (v << 8) | d[i]; return v; }

// C string semantics of a fixed field of PGN 126996: characters up to 0x00 / 0xff padding
static std::string fixedStr(const unsigned char *p, size_t n) { std::string r; for (size_t i = 0; i < n && p[i] != 0 && p[i] != 0xff; i++) r += (char)p[i]; return r; }

static void utf8Put(std::string &r, unsigned c) {
  if (c < 0x80) r += (char)c; else if (c < 0x800) { r += (char)(0xC0 | (c >> 6)); r += (char)(0x80 | (c & 0x3F)); }
  else { r += (char)(0xE0 | (c >> 12)); r += (char)(0x80 | ((c >> 6) & 0x3F)); r += (char)(0x80 | (c & 0x3F)); }
}
// reference decoder of one variable string field: returns false if the message is not decodable by the layout
// (length byte incl. 2 header bytes, type 0 = UCS-2 LE, 1 = ASCII); known=false: decodable but text has no defined C-string form
static bool varField(const std::vector<unsigned char> &d, size_t &i, std::string &out, bool &known) {
  if (i + 2 > d.size()) return false;
  unsigned len = d[i], type = d[i + 1];
  if (len < 2 || len == 0xff || type > 1 || i + len > d.size()) return false;
  out.clear(); known = true;
  const unsigned char *p = &d[i + 2]; unsigned n = len - 2;
  if (type == 1) { for (unsigned k = 0; k < n; k++) { if (p[k] == 0 || p[k] == 0xff) { known = false; } out += (char)p[k]; } }
  else {
    if (n % 2) known = false;
    for (unsigned k = 0; k + 1 < n; k += 2) { unsigned c = p[k] | (p[k + 1] << 8); if (c == 0 || c == 0xff) known = false; utf8Put(out, c); }
  }
  i += len; return true;
}

static void refMessage(unsigned long pgn, int src, const std::vector<unsigned char> &d) {
  if (src >= 254) return;                                  // not a bus device: outside the statement
  if (pgn == 60928) {
    if (d.size() != 8) { forgetSrc(src); forgetName(~0ULL); taintSrc[src] = true; taintOnes = true; return; }   // not a claim by layout: no requirement for what it touches
    uint64_t name = le64(d);
    if (name == 0) { forgetSrc(src); return; }              // NAME 0 identifies nobody; it displaces the NAME at that address
    if (bySrc[src] == name) return;                         // re-claim: nothing changes
    forgetSrc(src);                                         // displaced NAME forgotten
    forgetName(name);                                       // latest claim wins: the NAME left its old address
    bySrc[src] = name; byName[name] = src; info[src] = Info();
    if (taintSrc[src] || (name == ~0ULL && taintOnes)) { info[src].hasProd = true; info[src].prod.known = false; }
    return;
  }
  if (!bySrc[src]) return;
  Info &I = info[src];
  if (pgn == 126996) {
    if (I.hasProd) return;                                  // only the first after the claim counts
    I.hasProd = true; I.prod = Prod();
    if (d.size() != 134) return;                            // not decodable: no requirement
    I.prod.known = true; I.prod.ver = d[0] | d[1] << 8; I.prod.code = d[2] | d[3] << 8;
    for (int k = 0; k < 4; k++) I.prod.s[k] = fixedStr(&d[4 + 32 * k], 32);
    I.prod.cert = d[132]; I.prod.load = d[133];
  } else if (pgn == 126998) {
    size_t i = 0; std::string f[3]; bool kn[3] = {true, true, true};
    bool ok = varField(d, i, f[1], kn[1]) && varField(d, i, f[2], kn[2]) && varField(d, i, f[0], kn[0]) && i == d.size();
    if (!ok || !kn[0] || !kn[1] || !kn[2]) { I.conf = 2; return; }
    I.conf = 1; for (int k = 0; k < 3; k++) I.cs[k] = f[k];
  } else if (pgn == 126464) {
    if (d.size() < 1 || d[0] > 1) return;                   // no list of either kind: nothing to report
    int &st = d[0] == 0 ? I.tx : I.rx; std::vector<unsigned long> &l = d[0] == 0 ? I.txl : I.rxl;
    if ((d.size() - 1) % 3) { st = 2; return; }
    st = 1; l.clear();
    for (size_t k = 1; k + 2 < d.size(); k += 3) { unsigned long v = d[k] | d[k + 1] << 8 | (unsigned long)d[k + 2] << 16; if (!v) break; l.push_back(v); }
  }
}

static std::string cstr(const char *s) { return s ? std::string(s) : std::string(); }
static void checkCount();
static void checkGetters(const tNMEA2000::tDevice *d);

static void checkAll() {
  // (1) at most one entry per non-zero NAME; entry found under a source reports that source
  std::map<uint64_t, int> seen;
  for (int a = 0; a < 254; a++) {
    const tNMEA2000::tDevice *d = L->FindDeviceBySource(a);
    if (!d) continue;
    checkGetters(d);
    if (d->GetSource() != a) C.fail("C18:source-field:after-" + kind, "entry found under source %d reports source %d", a, d->GetSource());
    uint64_t n = d->GetName();
    if (n) { if (seen.count(n)) C.fail("C18:duplicate-name:after-" + kind, "NAME %016llx at sources %d and %d", (unsigned long long)n, seen[n], a); seen[n] = a; }
  }
  checkCount();
  // (2) lookups of every NAME whose latest claim is undisplaced, (3) its information
  for (auto &kv : byName) {
    uint64_t n = kv.first; int s = kv.second;
    const tNMEA2000::tDevice *d = L->FindDeviceByName(n);
    if (!d) { C.fail("C18:byname-missing:after-" + kind, "NAME %016llx claimed %d: not found", (unsigned long long)n, s); continue; }
    if (d->GetSource() != s) C.fail("C18:byname-source:after-" + kind, "NAME %016llx claimed %d, list says %d", (unsigned long long)n, s, d->GetSource());
    const tNMEA2000::tDevice *e = L->FindDeviceBySource(s);
    if (!e || e->GetName() != n) { C.fail("C18:bysource-name:after-" + kind, "source %d claimed by %016llx, list says %016llx", s, (unsigned long long)n, e ? (unsigned long long)e->GetName() : 0ULL); continue; }
    const Info &I = info[s];
    if (I.hasProd && I.prod.known) {
      const Prod &p = I.prod;
      // "defaults substituted for N/A": every number is either as sent or the default standing in for N/A, and the rest of the record is the expected one
      bool naDef = (e->GetN2kVersion() == p.ver || (p.ver == 0xffff && e->GetN2kVersion() == 2101)) && (e->GetCertificationLevel() == p.cert || (p.cert == 0xff && e->GetCertificationLevel() == 0)) &&
                   (e->GetLoadEquivalency() == p.load || (p.load == 0xff && e->GetLoadEquivalency() == 1)) && e->GetProductCode() == p.code && cstr(e->GetModelID()) == p.s[0] && cstr(e->GetModelSerialCode()) == p.s[3];
      if (I.parked) {
        const char *g[4] = {e->GetModelID(), e->GetSwCode(), e->GetModelVersion(), e->GetModelSerialCode()};
        bool same = e->GetN2kVersion() == p.ver && e->GetCertificationLevel() == p.cert && e->GetLoadEquivalency() == p.load && e->GetProductCode() == p.code;
        for (int k = 0; k < 4; k++) same = same && cstr(g[k]) == p.s[k];
        if (!same) C.fail("C18:parked-entry-prodinfo", "source %d: NAME %016llx claimed this address while its displaced entry was parked on it; first product information after "
                          "the claim (code %u) not reported (code %u)", s, (unsigned long long)n, p.code, e->GetProductCode());
        goto prodDone;
      }
      if (e->GetN2kVersion() != p.ver || e->GetCertificationLevel() != p.cert || e->GetLoadEquivalency() != p.load)
        C.fail(naDef ? "C18:prodinfo-na-defaults" : "C18:prodinfo:numbers", "source %d version/cert/load %u/%u/%u reported %u/%u/%u", s, p.ver, p.cert, p.load,
               e->GetN2kVersion(), e->GetCertificationLevel(), e->GetLoadEquivalency());
      if (e->GetProductCode() != p.code) C.fail("C18:prodinfo:code", "source %d code %u reported %u", s, p.code, e->GetProductCode());
      const char *g[4] = {e->GetModelID(), e->GetSwCode(), e->GetModelVersion(), e->GetModelSerialCode()};
      for (int k = 0; k < 4; k++) if (cstr(g[k]) != p.s[k]) C.fail("C18:prodinfo:string" + std::to_string(k), "source %d '%s' reported '%s'", s, p.s[k].c_str(), cstr(g[k]).c_str());
    }
    prodDone:
    if (I.conf == 1) {
      const char *g[3] = {e->GetManufacturerInformation(), e->GetInstallationDescription1(), e->GetInstallationDescription2()};
      static const char *fn[3] = {"man", "inst1", "inst2"};
      for (int k = 0; k < 3; k++) if (cstr(g[k]) != I.cs[k])
        C.fail(!g[k] ? "C18:conf-info-sizes" : std::string("C18:confinfo:") + fn[k], "source %d %s '%s' reported %s'%s'", s, fn[k], I.cs[k].c_str(), g[k] ? "" : "(null)", cstr(g[k]).c_str());
    }
    for (int t = 0; t < 2; t++) {
      int st = t ? I.rx : I.tx; if (st != 1) continue;
      const std::vector<unsigned long> &l = t ? I.rxl : I.txl; const unsigned long *g = t ? e->GetReceivePGNs() : e->GetTransmitPGNs();
      std::vector<unsigned long> got; if (g) for (; *g; g++) got.push_back(*g);
      if (!g || got != l) C.fail(std::string("C18:pgnlist:") + (t ? "rx" : "tx"), "source %d list of %zu PGNs reported %s%zu", s, l.size(), g ? "" : "(null) ", got.size());
    }
  }
}

// view through non-zero NAMEs (what an application can read back), for the updated-flag oracle
static std::map<uint64_t, std::string> view() {
  std::map<uint64_t, std::string> v;
  for (int a = 0; a < 254; a++) {
    const tNMEA2000::tDevice *d = L->FindDeviceBySource(a);
    if (!d || !d->GetName()) continue;
    std::string r = std::to_string(d->GetSource()) + "|" + std::to_string(d->GetN2kVersion()) + "|" + std::to_string(d->GetProductCode()) + "|" + cstr(d->GetModelID()) + "|" +
                    cstr(d->GetSwCode()) + "|" + cstr(d->GetModelVersion()) + "|" + cstr(d->GetModelSerialCode()) + "|" + std::to_string(d->GetCertificationLevel()) + "|" +
                    std::to_string(d->GetLoadEquivalency()) + "|" + DL::str(d->GetManufacturerInformation()) + "|" + DL::str(d->GetInstallationDescription1()) + "|" +
                    DL::str(d->GetInstallationDescription2()) + "|" + DL::lst(d->GetTransmitPGNs()) + "|" + DL::lst(d->GetReceivePGNs());
    v[d->GetName()] += r + ";";
  }
  return v;
}

// ------------------------------------------------------------------------------------------------- ASan report hook
static const char *g_line = "";
static void onAsan(const char *report) {
  std::string r(report ? report : "");
  const char *types[] = {"heap-use-after-free", "heap-buffer-overflow", "attempting double-free", "stack-buffer-overflow", "global-buffer-overflow", "SEGV"};
  std::string t = "error"; for (auto x : types) if (r.find(x) != std::string::npos) { t = x; break; }
  if (t == "attempting double-free") t = "double-free";
  std::string key = "C18:asan:" + t + ":" + kind;
  if (t == "heap-use-after-free" && kind.find("name0") != std::string::npos && kind.find("-ph") != std::string::npos) key = "C18:name0-placeholder";
  if (t == "heap-buffer-overflow" && kind == "conf") key = "C18:conf-info-stale-pointers";
  std::string fn; size_t p = r.find(" in tN2k"); if (p != std::string::npos) { size_t q = r.find_first_of(" (\n", p + 4); fn = r.substr(p + 4, q - p - 4); }
  C.outs("ASAN " + t);
  C.fail(key, "AddressSanitizer %s in %s while executing: %s", t.c_str(), fn.c_str(), g_line);
  C.finish();
  fputs(report, stderr);
  _exit(0);
}
extern "C" const char *__asan_default_options() { return "detect_leaks=0"; }

// ---------------------------------------------------------------------------------------------------------- ops
static std::string classify(unsigned long pgn, int src, const std::vector<unsigned char> &d) {
  if (src >= 254) return "nonbus";
  const tNMEA2000::tDevice *cur = L->FindDeviceBySource(src);
  if (pgn == 60928) {
    std::string k;
    if (d.size() != 8) k = "claim-short";
    else {
      uint64_t n = le64(d);
      if (n == 0) k = "claim-name0";
      else if (bySrc[src] == n) k = "claim-reclaim";
      else { bool mv = byName.count(n) != 0; bool occ = cur && cur->GetName() != 0; k = occ ? (mv ? "claim-takeover-move" : "claim-takeover") : (mv ? "claim-move" : "claim-new"); }
    }
    if (cur && cur->GetName() == 0) k += "-ph";
    return k;
  }
  if (pgn == 126996) return cur ? "prod" : "prod-unknown";
  if (pgn == 126998) return cur ? "conf" : "conf-unknown";
  if (pgn == 126464) return cur ? "pgns" : "pgns-unknown";
  return cur ? "data" : "data-unknown";
}

static void doMsg(const std::string &line, unsigned long pgn, int src, const std::vector<unsigned char> &d) {
  g_line = line.c_str();
  C.op("%s", line.c_str());
  kind = classify(pgn, src, d);
  bool parkedNow = false;
  if (pgn == 60928 && d.size() == 8 && src < 254) {
    const tNMEA2000::tDevice *cur = L->FindDeviceBySource(src); uint64_t n = le64(d);
    parkedNow = n != 0 && cur && cur->GetName() == n && bySrc[src] != n;
  }
  std::map<uint64_t, std::string> before = view();
  bool updBefore = L->updated();
  tN2kMsg m; m.SetPGN(pgn); m.Priority = 6; m.Destination = 255; m.Source = (unsigned char)src;
  m.DataLen = (int)d.size(); if (!d.empty()) memcpy(m.Data, d.data(), d.size());
  N->sent.clear();
  L->HandleMsg(m);
  std::string req;
  for (auto &f : N->sent) {
    if (!req.empty()) req += ',';
    if (((f.id >> 16) & 0xff) == 0xEA && f.len == 3) req += std::to_string((f.id >> 8) & 0xff) + ":" + std::to_string(f.buf[0] | f.buf[1] << 8 | (unsigned long)f.buf[2] << 16);
    else req += "x" + frameStr(f);
  }
  if (req.empty()) req = "-";
  C.out("n=%u p=%d u=%d req=%s", L->Count(), L->pending() ? 1 : 0, L->updated() ? 1 : 0, req.c_str());
  // oracle
  if (pgn == 60928) for (auto &x : nameReq) x.active = false;          // claims move / rename entries: start counting afresh
  else if (src < 254) {
    const tNMEA2000::tDevice *e = L->FindDeviceBySource(src); NameReq &q = nameReq[src];
    long asked = 0; for (auto &f : N->sent) if (((f.id >> 16) & 0xff) == 0xEA && f.len == 3 && ((f.id >> 8) & 0xff) == (unsigned)src && (f.buf[0] | f.buf[1] << 8 | (unsigned long)f.buf[2] << 16) == 60928) asked++;
    if (!e || e->GetName() != 0) q.active = false;
    else {
      if (!q.active) { q.active = true; q.cnt = asked; }
      else { q.cnt += asked; if (g_now - q.last >= 60000) q.cnt = 0; }
      q.last = g_now;
      if (q.cnt > 21) C.fail("C18:name-request-restart", "source %d without NAME was asked for its address claim %ld times without having been silent for 60 s (1 + 20 allowed)", src, q.cnt);
    }
  }
  refMessage(pgn, src, d);
  if (parkedNow && bySrc[src] == le64(d)) info[src].parked = true;
  checkAll();
  if (!updBefore && !L->updated() && view() != before) C.fail("C18:updated-flag:after-" + kind, "reported devices changed but list-updated is not raised");
  C.count("msg:" + kind);
  C.nontrivial(kind + "/" + std::to_string(L->Count() > 8 ? 9 : L->Count()) + "/" + std::to_string(byName.size() > 8 ? 9 : byName.size()) + "/" + std::to_string(d.size() / 8));
}

static void doReset(bool canSend, uint64_t now) {
  static const unsigned char fills[3] = {0x00, 0xA5, 0xBE}; g_fill = fills[now % 3];
  delete L; L = nullptr; delete N;
  N = new MockN2k();
  N->SetDeviceInformation(4711, 130, 25, 2046);
  N->SetMode(canSend ? tNMEA2000::N2km_ListenAndNode : tNMEA2000::N2km_ListenOnly, 22);
  N->EnableForward(false);
  g_now = now >= 700 ? now - 700 : 0;
  openAndSettle(*N, (int)(now - g_now));
  L = new DL(N);
  N->sent.clear();
  refReset();
  C.cases++;
}

// ---- oracle for the remaining lookups, from the header documentation and the NAME bit layout (ISO 11783-5: unique number =
// bits 0..20, manufacturer code = bits 21..31), evaluated over the entries the public FindDeviceBySource enumerates
static unsigned nameMan(uint64_t n) { return (unsigned)((n >> 21) & 0x7ff); }
static unsigned long nameUnique(uint64_t n) { return (unsigned long)(n & 0x1fffff); }
static void checkCount() {
  unsigned n = 0; for (int a = 0; a < 254; a++) if (L->FindDeviceBySource(a)) n++;
  if (L->FindDeviceBySource(254) || L->FindDeviceBySource(255)) C.fail("C18:bysource-range", "entry reported for source 254/255");
  if (L->Count() != n) C.fail("C18:count", "Count()=%u but %u sources have an entry", L->Count(), n);
}
static void checkGetters(const tNMEA2000::tDevice *d) {   // the NAME-derived getters agree with the NAME
  if (!d) return;
  if (d->GetManufacturerCode() != nameMan(d->GetName()) || d->GetUniqueNumber() != nameUnique(d->GetName()))
    C.fail("C18:name-fields", "NAME %016llx: manufacturer code %u unique number %lu", (unsigned long long)d->GetName(), (unsigned)d->GetManufacturerCode(), (unsigned long)d->GetUniqueNumber());
}
// FindDeviceByIDs: "Return device by manufacturer identification"; N/A (0xffff / 0xffffffff) is a wildcard, both N/A finds nothing;
// the first matching entry in source order
static void checkByIDs(uint16_t mc, uint32_t un, const tNMEA2000::tDevice *got) {
  checkGetters(got);
  const tNMEA2000::tDevice *want = nullptr;
  if (!(mc == 0xffff && un == 0xffffffffUL))
    for (int a = 0; a < 254 && !want; a++) { const tNMEA2000::tDevice *d = L->FindDeviceBySource(a);
      if (d && (mc == 0xffff || nameMan(d->GetName()) == mc) && (un == 0xffffffffUL || nameUnique(d->GetName()) == un)) want = d; }
  if (got != want) C.fail(std::string("C18:byids:") + (got ? (want ? "wrong-entry" : "spurious") : "missed"), "FindDeviceByIDs(%u,%lu) returned source %d, expected source %d", mc, (unsigned long)un,
                          got ? got->GetSource() : -1, want ? want->GetSource() : -1);
}
// FindDeviceByProduct: "Search with source = 0xff finds first device. To find all devices with given manufacturer product code, repeat
// search with found device source until device will not be found": the first matching entry BEHIND `a` (a = 0xff: from the start).
// Start values that are neither 0xff nor at or below the highest occupied source are not described by the header: no requirement.
static void checkByProduct(uint16_t mc, uint16_t pc, uint8_t a, const tNMEA2000::tDevice *got) {
  checkGetters(got);
  int top = -1; for (int i = 0; i < 254; i++) if (L->FindDeviceBySource(i)) top = i;
  if (a != 0xff && (int)a > top) { C.count("byprod-start-undocumented"); return; }
  const tNMEA2000::tDevice *want = nullptr;
  if (mc != 0xffff && pc != 0xffff)
    for (int i = (a == 0xff ? 0 : a + 1); i < 254 && !want; i++) { const tNMEA2000::tDevice *d = L->FindDeviceBySource(i);
      if (d && nameMan(d->GetName()) == mc && d->GetProductCode() == pc) want = d; }
  if (got != want) C.fail(std::string("C18:byproduct:") + (got ? (want ? "wrong-entry" : "spurious") : "missed"), "FindDeviceByProduct(%u,%u,%u) returned source %d, expected source %d", mc, pc, a,
                          got ? got->GetSource() : -1, want ? want->GetSource() : -1);
}

static uint64_t hex64(const std::string &s) { return strtoull(s.c_str(), nullptr, 16); }

static void exec(const std::string &line) {
  std::vector<std::string> w = split(line);
  if (w.empty()) return;
  if (w[0] == "reset" && w.size() == 3) { C.op("%s", line.c_str()); doReset(atoi(w[1].c_str()) != 0, strtoull(w[2].c_str(), nullptr, 10)); C.out("ok"); return; }
  if (!L) { C.op("%s", line.c_str()); C.out("bad-op"); return; }
  if (w[0] == "msg" && w.size() == 4) { doMsg(line, strtoul(w[1].c_str(), nullptr, 10), atoi(w[2].c_str()), unhex(w[3])); return; }
  if (w[0] == "claim" && w.size() == 3) { uint64_t n = hex64(w[2]); std::vector<unsigned char> d(8); for (int i = 0; i < 8; i++) d[i] = (unsigned char)(n >> (8 * i)); doMsg(line, 60928, atoi(w[1].c_str()), d); return; }
  if (w[0] == "data" && w.size() == 3) { doMsg(line, strtoul(w[2].c_str(), nullptr, 10), atoi(w[1].c_str()), {}); return; }
  kind = w[0]; g_line = line.c_str();
  C.op("%s", line.c_str());
  if (w[0] == "t" && w.size() == 2) { g_now += strtoull(w[1].c_str(), nullptr, 10); C.out("ok"); }
  else if (w[0] == "bysrc" && w.size() == 2) C.outs(L->dump(L->FindDeviceBySource((uint8_t)atoi(w[1].c_str()))));
  else if (w[0] == "byname" && w.size() == 2) C.outs(L->dump(L->FindDeviceByName(hex64(w[1]))));
  else if (w[0] == "byids" && w.size() == 3) { uint16_t mc = (uint16_t)atoi(w[1].c_str()); uint32_t un = (uint32_t)strtoul(w[2].c_str(), nullptr, 10); const tNMEA2000::tDevice *d = L->FindDeviceByIDs(mc, un); C.outs(L->dump(d)); checkByIDs(mc, un, d); }
  else if (w[0] == "byprod" && w.size() == 4) { uint16_t mc = (uint16_t)atoi(w[1].c_str()), pc = (uint16_t)atoi(w[2].c_str()); uint8_t a = (uint8_t)atoi(w[3].c_str()); const tNMEA2000::tDevice *d = L->FindDeviceByProduct(mc, pc, a); C.outs(L->dump(d)); checkByProduct(mc, pc, a, d); }
  else if (w[0] == "last" && w.size() == 2) C.out("%lu", L->GetDeviceLastMessageTime((uint8_t)atoi(w[1].c_str())));
  else if (w[0] == "count" && w.size() == 1) { C.out("%u", L->Count()); checkCount(); }
  else if (w[0] == "upd" && w.size() == 1) C.out("%d", L->ReadResetIsListUpdated() ? 1 : 0);
  else C.out("bad-op");
  C.count("query:" + w[0]);
}

// --------------------------------------------------------------------------------------------------- generator
static std::string name16(uint64_t n) { char b[20]; snprintf(b, sizeof b, "%016llx", (unsigned long long)n); return b; }
static std::string msgLine(unsigned long pgn, int src, const tN2kMsg &m) { return "msg " + std::to_string(pgn) + " " + std::to_string(src) + " " + hex(m.Data, m.DataLen); }
static std::string msgLineV(unsigned long pgn, int src, const std::vector<unsigned char> &d) { return "msg " + std::to_string(pgn) + " " + std::to_string(src) + " " + hex(d.data(), d.size()); }

static std::string randText(Rng &R, int maxLen, bool allowUtf8) {
  int n = (int)R.below(maxLen + 1); std::string s;
  bool uni = allowUtf8 && R.chance(1, 4);
  while ((int)s.size() < n) {
    if (uni && R.chance(1, 3)) { if (R.chance(1, 2)) utf8Put(s, 0x80 + (unsigned)R.below(0x780)); else utf8Put(s, 0x800 + (unsigned)R.below(0xD000 - 0x800)); }
    else s += (char)(0x20 + R.below(0x5f));
  }
  return s;
}

struct Gen {
  Rng &R; std::vector<int> srcs; std::vector<uint64_t> names;
  std::vector<std::vector<unsigned char>> prodPool;   // product information already sent in this case (devices re-send it after every address change)
  explicit Gen(Rng &r) : R(r) {}
  int src() { if (R.chance(1, 40)) return (int)R.range(252, 255); return R.pick(srcs); }
  void claim() {
    int s = src(); uint64_t n = R.pick(names);
    if (R.chance(1, 30)) { std::vector<unsigned char> d(R.below(8)); for (auto &b : d) b = (unsigned char)R.next(); exec(msgLineV(60928, s, d)); return; }
    exec("claim " + std::to_string(s) + " " + name16(n));
  }
  void prod() {
    if (!prodPool.empty() && R.chance(2, 5)) { exec(msgLineV(126996, src(), R.pick(prodPool))); return; }   // byte-identical re-send
    int s = src(); tN2kMsg m;
    static const unsigned vers[] = {2101, 1300, 0xffff, 0, 2100}; static const unsigned bytes[] = {0, 1, 2, 0xfe, 0xff, 7};
    std::string a = randText(R, 32, false), b = randText(R, 32, false), c = randText(R, 32, false), d = randText(R, 32, false);
    SetN2kPGN126996(m, vers[R.below(5)], R.chance(1, 6) ? 0xffff : (unsigned)R.below(60000), a.c_str(), b.c_str(), c.c_str(), d.c_str(), bytes[R.below(6)], bytes[R.below(6)]);
    if (R.chance(1, 12)) { m.DataLen = (int)R.below(135); }                         // truncated
    if (R.chance(1, 20)) { for (int i = 0; i < 6; i++) m.Data[4 + R.below(128)] = (unsigned char)R.next(); }   // arbitrary bytes in the strings
    // only complete messages are re-sent: on a truncated one the library compares uninitialised bytes of its local buffer (IsSame = memcmp), see trusted base
    if (prodPool.size() < 4 && m.DataLen == 134) prodPool.push_back(std::vector<unsigned char>(m.Data, m.Data + m.DataLen));
    exec(msgLine(126996, s, m));
  }
  static void putVar(std::vector<unsigned char> &d, int type, const std::vector<unsigned char> &body) { d.push_back((unsigned char)(body.size() + 2)); d.push_back((unsigned char)type); d.insert(d.end(), body.begin(), body.end()); }
  void conf() {
    int s = src();
    int mode = (int)R.below(10);
    if (mode < 5) {               // the library's own setter: ASCII or UTF-8 text (sent as UCS-2 when needed)
      tN2kMsg m; int mx = R.chance(1, 3) ? 70 : (R.chance(1, 2) ? 8 : 30);
      std::string a = randText(R, mx, true), b = randText(R, mx, true), c = randText(R, mx, true);
      if (R.chance(1, 5)) a.clear(); if (R.chance(1, 5)) b.clear(); if (R.chance(1, 5)) c.clear();
      SetN2kPGN126998(m, a.c_str(), b.c_str(), c.c_str());
      exec(msgLine(126998, s, m));
    } else if (mode < 8) {        // hand-built fields of chosen sizes and types
      std::vector<unsigned char> d;
      for (int f = 0; f < 3; f++) {
        int type = R.chance(1, 3) ? 0 : 1; int n = R.chance(1, 4) ? 0 : (int)R.below(R.chance(1, 2) ? 6 : 60);
        std::vector<unsigned char> body;
        if (type == 1) for (int i = 0; i < n; i++) body.push_back((unsigned char)(0x21 + R.below(0x5e)));
        else for (int i = 0; i < n / 2; i++) { unsigned c = R.chance(1, 2) ? 0x41 + (unsigned)R.below(26) : (R.chance(1, 2) ? 0x80 + (unsigned)R.below(0x780) : 0x800 + (unsigned)R.below(0xF000)); body.push_back((unsigned char)c); body.push_back((unsigned char)(c >> 8)); }
        putVar(d, type, body);
      }
      if (d.size() <= 223) exec(msgLineV(126998, s, d));
    } else {                      // malformed: arbitrary bytes, truncated, wrong lengths/types
      tN2kMsg m; std::string a = randText(R, 20, false), b = randText(R, 20, false), c = randText(R, 20, false);
      SetN2kPGN126998(m, a.c_str(), b.c_str(), c.c_str());
      std::vector<unsigned char> d(m.Data, m.Data + m.DataLen);
      int k = (int)R.below(4);
      if (k == 0) d.resize(R.below(d.size() + 1));
      else if (k == 1) { for (int i = 0; i < 3; i++) d[R.below(d.size())] = (unsigned char)R.next(); }
      else if (k == 2) { d.resize(R.below(40)); for (auto &x : d) x = (unsigned char)R.next(); }
      else { d[0] = (unsigned char)R.pick(std::vector<int>{0, 1, 2, 3, 0xff, 0xfe, 200}); if (R.chance(1, 2) && d.size() > 1) d[1] = (unsigned char)R.below(4); }
      exec(msgLineV(126998, s, d));
    }
  }
  void pgns() {
    int s = src(); std::vector<unsigned char> d;
    int ty = R.chance(1, 15) ? (int)R.below(256) : (int)R.below(2);
    d.push_back((unsigned char)ty);
    int n = R.chance(1, 6) ? 0 : (R.chance(1, 8) ? 74 : (int)R.below(20));
    for (int i = 0; i < n; i++) { unsigned long p = R.chance(1, 25) ? 0 : (R.chance(1, 2) ? 126000 + R.below(5000) : 59392 + R.below(71000)); d.push_back((unsigned char)p); d.push_back((unsigned char)(p >> 8)); d.push_back((unsigned char)(p >> 16)); }
    if (R.chance(1, 12)) for (int i = (int)R.below(3); i > 0; i--) d.push_back((unsigned char)R.next());   // trailing bytes
    if (R.chance(1, 40)) d.clear();
    exec(msgLineV(126464, s, d));
  }
  void data() {
    static const unsigned long pg[] = {127250, 129026, 59904, 126993, 60160, 130306, 126208, 65240, 0};
    exec("data " + std::to_string(src()) + " " + std::to_string(pg[R.below(9)]));
  }
  void query() {
    switch (R.below(7)) {
      case 0: exec("bysrc " + std::to_string(R.chance(1, 8) ? (int)R.below(256) : R.pick(srcs))); break;
      case 1: exec("byname " + name16(R.pick(names))); break;
      case 2: { uint64_t n = R.pick(names); unsigned man = (unsigned)((n & 0xffffffffULL) >> 21), u = (unsigned)(n & 0x1fffff);
                int k = (int)R.below(4); exec("byids " + std::to_string(k == 1 ? 0xffffu : man) + " " + std::to_string(k == 2 ? 0xffffffffUL : (k == 3 ? u + 1 : u))); break; }
      case 3: { uint64_t n = R.pick(names); unsigned man = R.chance(1, 8) ? 0xffffu : (unsigned)((n & 0xffffffffULL) >> 21);
                unsigned code = R.chance(1, 8) ? 0xffffu : (!prodPool.empty() && R.chance(3, 4) ? (unsigned)(R.pick(prodPool)[2] | R.pick(prodPool)[3] << 8) : (unsigned)R.below(60000));
                if (!prodPool.empty() && R.chance(1, 2)) { const std::vector<unsigned char> &pp = R.pick(prodPool); code = pp[2] | pp[3] << 8; }
                int start = R.chance(1, 2) ? 255 : (R.chance(1, 4) ? (int)R.below(256) : R.pick(srcs));
                exec("byprod " + std::to_string(man) + " " + std::to_string(code) + " " + std::to_string(start));
                // the documented idiom: repeat the search with the found device's source until nothing is found
                for (int guard = 0; guard < 6; guard++) { const tNMEA2000::tDevice *d = L->FindDeviceByProduct((uint16_t)man, (uint16_t)code, (uint8_t)start); if (!d) break;
                  start = d->GetSource(); exec("byprod " + std::to_string(man) + " " + std::to_string(code) + " " + std::to_string(start)); }
                break; }
      case 4: exec("count"); break;
      case 5: exec("last " + std::to_string(R.pick(srcs))); break;
      default: exec("bysrc " + std::to_string(R.pick(srcs))); break;
    }
  }
  void tick() { static const unsigned ms[] = {1, 10, 300, 1000, 1001, 2500, 60001, 59999}; exec("t " + std::to_string(ms[R.below(8)])); }
  void step() {
    unsigned r = (unsigned)R.below(100);
    if (r < 36) claim(); else if (r < 48) prod(); else if (r < 63) conf(); else if (r < 73) pgns(); else if (r < 88) data(); else tick();
    if (R.chance(3, 5)) exec("upd");
    if (R.chance(1, 3)) query();
  }
};

// clock origins only move forward (the open state machine of the library keeps a static scheduler); the low 32 bits
// of the origin are placed around the interesting values
static uint64_t originAt(uint64_t want32) {
  uint64_t base = g_now + 2000, c = (base & ~0xffffffffULL) + want32;
  if (c < base) c += 0x100000000ULL;
  return c;
}
static uint64_t pickOrigin(Rng &R) {
  switch (R.below(10)) {
    case 0: return originAt(2147483648ULL - 3000 + R.below(6000));
    case 1: return originAt((4294967296ULL - 70000 + R.below(140000)) & 0xffffffffULL);
    case 2: return originAt(R.below(3000));
    default: return g_now + 2000 + R.below(100000);
  }
}

static void randomCase(Rng &R, int nops) {
  Gen G(R);
  int ns = R.chance(1, 4) ? 2 + (int)R.below(3) : (R.chance(1, 3) ? 30 + (int)R.below(222) : 4 + (int)R.below(8));
  std::set<int> ss; while ((int)ss.size() < ns) ss.insert(R.chance(1, 6) ? (int)R.range(248, 253) : (int)R.below(254));
  G.srcs.assign(ss.begin(), ss.end());
  int nn = 3 + (int)R.below(ns < 6 ? 5 : 10);
  uint64_t base = (R.next() & 0x7fffffffffffffffULL) | 1;
  for (int i = 0; i < nn; i++) {
    uint64_t n = R.chance(1, 3) ? base + ((uint64_t)i << 32) : (R.chance(1, 2) ? (base & 0xffffffff00000000ULL) | (R.next() & 0xffffffffULL) : R.next());
    if (!n) n = 5; G.names.push_back(n);
  }
  if (R.chance(1, 2)) G.names.push_back(0);
  if (R.chance(1, 3)) G.names.push_back(~0ULL);
  if (R.chance(1, 3)) G.names.push_back(1);
  exec("reset " + std::to_string(R.chance(1, 8) ? 0 : 1) + " " + std::to_string(pickOrigin(R)));
  for (int i = 0; i < nops; i++) G.step();
  for (size_t i = 0; i < G.srcs.size() && i < 12; i++) exec("bysrc " + std::to_string(G.srcs[i]));
  for (auto n : G.names) exec("byname " + name16(n));
  exec("count");
}

// all 254 addresses occupied, then takeovers: the displaced entry cannot be parked and is deleted
static void fullTableCase(Rng &R) {
  exec("reset 1 " + std::to_string(g_now + 5000 + R.below(1000)));
  uint64_t base = (R.next() & 0x00ffffffffffff00ULL) | 0x0100000000000000ULL;
  for (int a = 0; a < 254; a++) { if (R.chance(1, 5)) exec("data " + std::to_string(a) + " 127250"); exec("claim " + std::to_string(a) + " " + name16(base + a)); }
  exec("count"); exec("upd");
  for (int i = 0; i < 6; i++) { uint64_t n = base + R.below(254); exec("byids " + std::to_string((unsigned)((n & 0xffffffffULL) >> 21)) + " " + std::to_string((unsigned long)(n & 0x1fffff)));
                                exec("byids 65535 " + std::to_string((unsigned long)(n & 0x1fffff))); exec("byprod " + std::to_string((unsigned)((n & 0xffffffffULL) >> 21)) + " 0 " + std::to_string(R.below(256))); }
  for (int i = 0; i < 12; i++) {
    int a = (int)R.below(254);
    exec("claim " + std::to_string(a) + " " + name16(R.chance(1, 2) ? base + 1000 + i : base + R.below(254)));
    exec("upd"); exec("count"); exec("bysrc " + std::to_string(a)); exec("byname " + name16(base + a));
    if (R.chance(1, 2)) { tN2kMsg m; SetN2kPGN126998(m, "maker", "where", "notes"); exec(msgLine(126998, a, m)); exec("bysrc " + std::to_string(a)); }
  }
}

struct ProdFields { unsigned ver, code, cert, load; std::string s[4]; };
static std::vector<unsigned char> prodBytes(const ProdFields &f) {
  tN2kMsg m; SetN2kPGN126996(m, f.ver, f.code, f.s[0].c_str(), f.s[1].c_str(), f.s[2].c_str(), f.s[3].c_str(), (unsigned char)f.cert, (unsigned char)f.load);
  return std::vector<unsigned char>(m.Data, m.Data + m.DataLen);
}
static std::string text2to31(Rng &R) { std::string t; int n = 2 + (int)R.below(30); for (int i = 0; i < n; i++) t += (char)(0x21 + R.below(0x5e)); return t; }
static ProdFields prodFields(Rng &R, bool na) {
  ProdFields f; f.ver = na ? 0xffff : 2101; f.code = (unsigned)R.below(60000); f.cert = na ? 0xff : 1; f.load = na ? 0xff : 1 + (unsigned)R.below(9);
  for (auto &t : f.s) t = text2to31(R);
  return f;
}
// first: 0 = P again byte-identically, 1 = a completely different record, 2..5 = only N2kVersion / product code / certification level /
// load equivalency differs, 6+3k+{0,1,2} = only string k differs {in a middle character, in its last character, in its length}
static const int PROD_FIRST_KINDS = 18;
static ProdFields firstAfter(Rng &R, const ProdFields &P, int first) {
  ProdFields f = P;
  if (first == 0) return f;
  if (first == 1) return prodFields(R, false);
  if (first == 2) { f.ver = P.ver == 2101 ? 1300 : 2101; return f; }
  if (first == 3) { f.code = P.code + 1; return f; }
  if (first == 4) { f.cert = P.cert == 1 ? 2 : 1; return f; }
  if (first == 5) { f.load = P.load == 3 ? 4 : 3; return f; }
  int k = (first - 6) / 3, how = (first - 6) % 3; std::string &t = f.s[k];
  auto other = [](char c) { return (char)(c == 'x' ? 'y' : 'x'); };
  if (how == 0) t[t.size() / 2 - (t.size() > 2 ? 0 : 1)] = other(t[t.size() / 2 - (t.size() > 2 ? 0 : 1)]);
  else if (how == 1) t[t.size() - 1] = other(t[t.size() - 1]);
  else { if (R.chance(1, 2)) t.pop_back(); else t += 'z'; }
  return f;
}
// product information stories: a device with known product information P moves (or not), then sends as the FIRST message after
// that: P byte-identically, a completely different record, or P with exactly one field changed (same unit after a firmware
// update ...); then a different Q and P again - only the first message after the claim may be reported.
// Getter query and `upd` after every message.
static void prodStory(Rng &R, int move, int first) {
  exec("reset " + std::to_string(R.chance(1, 6) ? 0 : 1) + " " + std::to_string(g_now + 3000 + R.below(5000)));
  uint64_t A = (R.next() | 0x100) & 0x7fffffffffffffffULL, B = A + 0x100000000ULL;
  int s1 = (int)R.below(254), s2 = (s1 + 1 + (int)R.below(252)) % 254;
  bool na = R.chance(1, 4);
  ProdFields Pf = prodFields(R, na);
  std::vector<unsigned char> P = prodBytes(Pf), F = prodBytes(firstAfter(R, Pf, first)), Q = prodBytes(prodFields(R, false));
  unsigned manA = (unsigned)((A & 0xffffffffULL) >> 21); unsigned long unA = (unsigned long)(A & 0x1fffff);
  auto look = [&](int s) { exec("bysrc " + std::to_string(s)); exec("byname " + name16(A)); exec("upd");
                           if (R.chance(1, 3)) exec("byids " + std::to_string(R.chance(1, 4) ? 0xffffu : manA) + " " + std::to_string(R.chance(1, 4) ? 0xffffffffUL : unA));
                           if (R.chance(1, 3)) exec("byprod " + std::to_string(manA) + " " + std::to_string(R.chance(1, 2) ? Pf.code : Pf.code + 1) + " " + std::to_string(R.chance(1, 2) ? 255 : s1)); };
  if (R.chance(1, 3)) { exec("data " + std::to_string(s1) + " 127250"); exec("upd"); }     // reservation first
  exec("claim " + std::to_string(s1) + " " + name16(A)); look(s1);
  exec(msgLineV(126996, s1, P)); look(s1);
  int s = s1;
  switch (move) {
    case 0: s = s2; exec("claim " + std::to_string(s2) + " " + name16(A)); look(s2); break;                 // address move
    case 1: break;                                                                                            // no move
    case 2: exec("claim " + std::to_string(s1) + " " + name16(A)); look(s1); break;                           // re-claim, same address
    case 3: exec("claim " + std::to_string(s1) + " " + name16(B)); look(s1);                                  // displaced, then claims another address
            s = s2; exec("claim " + std::to_string(s2) + " " + name16(A)); look(s2); break;
  }
  if (R.chance(1, 3)) { exec("t 1500"); exec("data " + std::to_string(s) + " 129026"); exec("upd"); }
  exec(msgLineV(126996, s, F)); look(s);      // first after the claim
  exec(msgLineV(126996, s, Q)); look(s);      // must be ignored
  exec(msgLineV(126996, s, P)); look(s);
  exec("count");
}

// request sequencing story: one or two devices, information delivered (or withheld) step by step with the clock moving on, so that
// the three request loops of HandleOther (product information, then configuration information, then PGN lists; at most 4 each) all run
static void requestStory(Rng &R, int variant) {
  exec("reset 1 " + std::to_string(pickOrigin(R)));
  uint64_t A = (R.next() | 0x100) & 0x7fffffffffffffffULL; int s1 = (int)R.below(254), s2 = (s1 + 1 + (int)R.below(252)) % 254;
  auto tick = [&](int s) { exec("t " + std::to_string(variant & 1 ? 1001 : 400 + R.below(1500))); exec("data " + std::to_string(s) + " 129026"); };
  if (variant & 2) exec("data " + std::to_string(s1) + " 127250");
  exec("claim " + std::to_string(s1) + " " + name16(A));
  if (variant & 4) exec("claim " + std::to_string(s2) + " " + name16(A + 0x100000000ULL));
  for (int i = 0; i < 3; i++) tick(s1);
  if (!(variant & 8)) exec(msgLineV(126996, s1, prodBytes(prodFields(R, false))));
  for (int i = 0; i < 6; i++) tick(i % 2 && (variant & 4) ? s2 : s1);
  if (!(variant & 16)) { tN2kMsg m; SetN2kPGN126998(m, "maker", "where", "notes"); exec(msgLine(126998, s1, m)); }
  if (variant & 4) { exec(msgLineV(126996, s2, prodBytes(prodFields(R, false)))); tN2kMsg m; SetN2kPGN126998(m, "m2", "", "n2"); exec(msgLine(126998, s2, m)); }
  for (int i = 0; i < 7; i++) tick(s1);
  exec("msg 126464 " + std::to_string(s1) + " 0010f001"); tick(s1); exec("msg 126464 " + std::to_string(s1) + " 0110f00104ea00"); 
  for (int i = 0; i < 3; i++) tick(s1);
  exec("bysrc " + std::to_string(s1)); exec("count"); exec("upd");
}

// name request story: sources that never claim keep sending; the name is requested 1 + 20 times, again only after 60 s of silence
static void nameRequestStory(Rng &R, int variant) {
  uint64_t org = (variant & 1) ? g_now + 2000 + R.below(3000) : pickOrigin(R); if ((variant & 2) && org < 70000) org += 70000;
  org += (3 + variant % 3 - org % 3) % 3;                      // all three fill patterns
  exec("reset 1 " + std::to_string(org));
  int s1 = (int)R.below(254), s2 = (s1 + 1 + (int)R.below(252)) % 254;
  static const unsigned long pg[] = {127250, 129026, 130306};
  for (int i = 0; i < 30; i++) { exec("data " + std::to_string(s1) + " " + std::to_string(pg[R.below(3)])); if (i < 3 || R.chance(1, 5)) exec("last " + std::to_string(s1));
    if (variant & 4) exec("data " + std::to_string(s2) + " 127250"); exec("t " + std::to_string(50 + R.below(900))); }
  exec("bysrc " + std::to_string(s1));
  exec("t 60001"); for (int i = 0; i < 25; i++) { exec("data " + std::to_string(s1) + " 129026"); exec("t " + std::to_string(20 + R.below(300))); }
  exec("count");
}

// small-scope exhaustive: every sequence of length `len` over claims {2 sources x 3 names(0,A,B)} + data from the 2 sources
static void exhaustive(int len) {
  std::vector<std::string> alpha;
  const char *nm[3] = {"0000000000000000", "00000000000000a1", "00000000000000b2"};
  for (int s = 0; s < 2; s++) { for (int n = 0; n < 3; n++) alpha.push_back("claim " + std::to_string(10 + s) + " " + nm[n]); alpha.push_back("data " + std::to_string(10 + s) + " 127250"); }
  size_t A = alpha.size(); size_t total = 1; for (int i = 0; i < len; i++) total *= A;
  for (size_t code = 0; code < total; code++) {
    exec("reset 1 " + std::to_string(g_now + 2000));
    size_t c = code; for (int i = 0; i < len; i++) { exec(alpha[c % A]); c /= A; }
    exec("count"); exec("byname 00000000000000a1"); exec("byname 00000000000000b2"); exec("bysrc 10"); exec("bysrc 11"); exec("bysrc 0");
  }
}

int main(int argc, char **argv) {
  C.init(argc, argv);
#ifdef VH_ASAN
  __asan_set_error_report_callback(onAsan);
#else
  (void)onAsan;
#endif
  C.rule = "case = one device list from construction (reset) through a history of delivered messages; non-trivial = every delivered message; "
           "distinct = (input class of the message, entries in the list, NAMEs under requirement, payload size class)";
  if (!C.replay.empty()) { for (auto &l : readLines(C.replay)) exec(l); C.finish(); return 0; }
  Rng R(C.seed * 0x2545F4914F6CDD1DULL + 0x9E37);
  exhaustive(C.thorough ? 4 : 3);
  C.sample("exhaustive: all sequences of length " + std::to_string(C.thorough ? 4 : 3) + " over {claim 2 sources x NAMEs 0,A,B; data from 2 sources}");
  fullTableCase(R);
  C.sample("full table: 254 NAMEs on 254 addresses, then takeovers/moves with no free slot");
  for (int rep = 0; rep < (C.thorough ? 6 : 1); rep++) for (int mv = 0; mv < 4; mv++) for (int f = 0; f < PROD_FIRST_KINDS; f++) prodStory(R, mv, f);
  C.sample("product information stories: known P, then {address move | nothing | re-claim | displaced and moved} x first message after = {P byte-identically | a different record | "
           "P with exactly one field changed: each number, each of the 4 strings in a middle character / the last character / the length}, then a different Q and P again; "
           "bysrc/byname/upd after every message");
  for (int rep = 0; rep < (C.thorough ? 3 : 1); rep++) for (int v = 0; v < 12; v++) nameRequestStory(R, v);
  C.sample("name request stories: sources that never claim send 30 + 25 messages (a 60 s pause between); entries start from memory filled with 0x00 / 0xA5 / 0xBE; clock below and above 60 s, around 2^31 / 2^32");
  for (int rep = 0; rep < (C.thorough ? 4 : 1); rep++) for (int v = 0; v < 32; v++) requestStory(R, v);
  C.sample("request sequencing stories: information delivered or withheld step by step over virtual time (1 or 2 devices), all three request loops and their limits of 4");
  int ncases = C.thorough ? 900 : 120;
  for (int i = 0; i < ncases; i++) randomCase(R, C.thorough ? 60 + (int)R.below(260) : 40 + (int)R.below(160));
  C.sample("random histories: 2..252 sources, 3..15 NAMEs incl. 0/all-ones/1, shared manufacturer codes; claims new/move/takeover/re-claim/short, 126996/126998/126464 "
           "well-formed (library setters), hand-built field sizes/types, truncated and arbitrary payloads, data from unknown sources, clock origins incl. 2^31 and 2^32");
  C.finish();
  return 0;
}
