"""C08 - ISO requests (PGN 59904) are always answered: data for the mandatory PGNs, NAK otherwise."""
SPEC = {
    'engine': 'isorq', 'harness': 'isorq.cpp',
    'repo_srcs': ['N2kMsg.cpp', 'N2kStream.cpp', 'N2kMessages.cpp', 'N2kTimer.cpp', 'N2kGroupFunction.cpp', 'N2kGroupFunctionDefaultHandlers.cpp', 'NMEA2000.cpp'],
    'variants': ['', 't32'],
    'lean_modules': ['N2k.Props.C08'], 'props_files': ['N2k/Props/C08.lean'],
    'translators': ['pgn_tables'],
    'case_start': ['new'],
    'trusted_base': [],
    'assumptions': [],
}
MANIFEST = {'text': '', 'design_ref': 'DESIGN.md section 4, C08', 'note': ''}
