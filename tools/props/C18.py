"""C18 - the optional device list mirrors the address claims seen on the bus."""
SPEC = {
    'engine': 'devlist', 'harness': 'devlist.cpp',
    'repo_srcs': ['N2kDeviceList.cpp', 'N2kMsg.cpp', 'N2kStream.cpp', 'N2kMessages.cpp', 'N2kTimer.cpp', 'N2kGroupFunction.cpp',
                  'N2kGroupFunctionDefaultHandlers.cpp', 'NMEA2000.cpp'],
    'lean_modules': ['N2k.Props.C18'], 'props_files': ['N2k/Props/C18.lean'],
    'case_start': ['reset'],
    'trusted_base': [
        "model N2k/Model/DeviceList.lean transcribes N2kDeviceList.cpp/.h by hand (HandleMsg and its five handlers, AddDevice, "
        "SaveDevice, the find functions, tInternalDevice storage management, request sequencing) incl. the fix: commits of "
        "known_findings.d/C18.json; tied to the compiled code only by the differential run",
        "heap model: object ids are never reused, `delete` leaves a dead cell, every access through a pointer is checked; "
        "malloc/new always succeed",
        "the parsers called by the list are the C16 models N2k.Text.getStr2 / N2k.Text.getVarStr (their round-trip theorems are "
        "C16's); the size-query form of GetVarStr (null buffer) is transcribed here",
        "tNMEA2000::SendMsg is an environment input (succeeds / fails for a whole HandleMsg call); the requests it sends are "
        "outputs (destination, requested PGN)",
        "uninitialised memory (fresh malloc blocks, the local tProductInformation) is an arbitrary environment value in the "
        "theorems and never read before written in the model; the harness creates list entries from memory filled with "
        "0x00 / 0xA5 / 0xBE (its operator new), so a member the constructor forgets shows up as a correspondence or oracle failure",
        "the model compares product information FIELD-WISE (ProdInfo record: four numbers and the four C strings), while "
        "tProductInformation::IsSame is a memcmp over the whole struct and HandleProductInformation never clears its local "
        "copy: on a truncated 126996 the library compares uninitialised bytes behind the terminators of that local buffer "
        "(may raise list-updated although nothing reported changes; not visible to an oracle written from the statement). The "
        "generator therefore re-sends only complete 126996 messages, for which both comparisons agree",
    ],
    'assumptions': ["0 <= DataLen <= 223, payload bytes < 256", "LP64: unsigned long is 64 bit; N2kMillis() is 32 bit",
                    "messages from sources >= 254 are ignored by the list and carry no requirement",
                    "`first product information after a device's address claim` = after the claim that established the "
                    "current NAME/address binding (a re-claim of the same NAME on the same address does not restart it)",
                    "a claim carrying NAME 0 identifies nobody: it displaces the NAME stored for that address and binds nothing"],
}
MANIFEST = {
    'text': "Kernel-checked theorems over a heap model of the device list in which a freed entry stays observable (every "
            "dereference of a dead object is a Fault). For EVERY history of delivered messages, send outcomes, clock values and "
            "junk in uninitialised memory: no run of HandleMsg faults, every occupied slot points to a live entry carrying that "
            "source and at most one entry has a given non-zero NAME (C18_one_entry_per_name); the list refines the two-map "
            "specification `latest claim wins, displaced NAME forgotten` and, in the words of the property, the latest "
            "undisplaced claim of a NAME is what FindDeviceByName / FindDeviceBySource return (C18_refines_map, "
            "C18_latest_claim); a step raises list-updated or leaves unchanged what is reported for every non-zero NAME "
            "(C18_updated_flag); the latest 126464 of each kind and the latest 126998 from a device's source are what the "
            "getters return, for any previously stored sizes (C18_information_pgns, C18_information_conf: strings = what "
            "GetVarStr leaves in exact-size buffers); the first 126996 after a claim is what is reported, except when the "
            "claimed address already holds the NAME's own parked entry (C18_information_prod_partial + "
            "C18_parked_entry_witness, open finding); FindDeviceByIDs / FindDeviceByProduct return an entry of the list "
            "(of the searched range) whose NAME bits / product code match, nothing only for N/A arguments or when no entry "
            "matches (C18_find_by_ids, C18_find_by_product); the request-due rule (C18_request_due). Correspondence: a real tN2kDeviceList behind a mock node under "
            "ASan/UBSan against the model on exhaustive short claim histories, a full 254-entry table with takeovers, and "
            "random histories (2..252 sources, NAME 0/all-ones, moves, takeovers, re-claims, truncated claims, "
            "126996/126998/126464 of all sizes, repeated with different field sizes, malformed payloads, both send outcomes, "
            "clock origins around 2^31/2^32) with reference maps as oracle; everything is observed through the PUBLIC interface only (FindDeviceBySource/ByName/"
            "ByIDs/ByProduct, Count, the virtual getters of the returned tDevice), with independent oracles for Count, the "
            "NAME-derived getters and both remaining lookups; gcov: 100% of the lines and functions of N2kDeviceList.cpp/.h.",
    'design_ref': 'DESIGN.md section 4, C18',
    'note': "Trusted: Lean kernel; hand transcription of N2kDeviceList.cpp (with the four fix commits) validated only by "
            "differential runs; C16 parser models (what GetStr/GetVarStr leave in a buffer is C16's subject); SendMsg and "
            "uninitialised memory as environment inputs; request pacing (as of /repo f104fb3: counter==0 means never requested, N2kHasElapsed for all three kinds - rule stated in C18_request_due) is transcribed, its timing properties belong to C13. Open: "
            "C18:parked-entry-prodinfo (displaced entries parked on a free slot).",
}
