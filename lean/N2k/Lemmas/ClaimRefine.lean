import N2k.Lemmas.ClaimInst
import N2k.Lemmas.ClaimBus
/-! Refinement: every step of the concrete bus (`N2k.Bus.step`: real frames, library instances running the
transcribed `ParseMessages`, foreign ISO 11783-5 nodes) is a step of the abstract claim bus that satisfies the
announcement contract of `ClaimBus.inv_step`. -/
namespace N2k.Bus
open N2k.Send N2k.Time N2k.Claim N2k.ClaimBus

/-- how a node reads a frame: the library through its receive path, a foreign node as the standard says -/
def decodeFor : Kind → Frame → Option Iso.Claim
  | .lib _ => libDecode
  | .foreign _ => fun f => Iso.decodeClaim f.id f.len f.data

def absBus (b : Bus) : ASys :=
  { n := b.n, cl := fun i => claimants (b.node i).kind,
    inbox := fun i => (b.node i).inbox.filterMap (decodeFor (b.node i).kind) }

def KindOK : Kind → Prop
  | .lib x => LibOK x
  | .foreign f => f.name < 2^64 ∧ f.addr < 256 ∧ f.pref < 256

/-- hypotheses on the bus configuration -/
structure BusOK (b : Bus) : Prop where
  nodes : ∀ i, i < b.n → KindOK (b.node i).kind
  next : ∀ n, b.next n < 256

theorem decode_frameOfClaim (k : Kind) (c : Iso.Claim) (hn : c.1 < 2^64) (ha : c.2 < 256) :
    decodeFor k (frameOfClaim c) = some c := by
  cases k with
  | lib x => exact libDecode_frameOfClaim c.1 c.2 hn ha
  | foreign f => exact isoDecode_frameOfClaim c.1 c.2 hn ha

/-- what one step of a node guarantees; `A` = addresses of the claim it consumed -/
structure KStep (A : Nat → Prop) (k k' : Kind) (out : List Frame) : Prop where
  ok : KindOK k'
  same : decodeFor k' = decodeFor k
  contract : ∀ c ∈ claimants k', c.2 < 252 →
    (frameOfClaim c ∈ out ∧ c.1 < 2^64 ∧ c.2 < 256) ∨ (c ∈ claimants k ∧ ¬ A c.2)

theorem claimants_lib_mem {x : Inst} {c : Iso.Claim} (h : c ∈ claimants (.lib x)) :
    x.s.openState = 3 ∧ ∃ (i : Nat) (d : Dev), x.s.devs[i]? = some d ∧ c = (d.name, d.source) := by
  simp only [claimants] at h
  by_cases ho : x.s.openState = 3
  · rw [if_pos ho] at h
    obtain ⟨d, hd, rfl⟩ := List.mem_map.mp h
    obtain ⟨i, hi⟩ := List.getElem?_of_mem hd
    exact ⟨ho, i, d, hi, rfl⟩
  · rw [if_neg ho] at h; cases h

theorem mem_claimants_lib {x : Inst} (ho : x.s.openState = 3) {i : Nat} {d : Dev} (h : x.s.devs[i]? = some d) :
    (d.name, d.source) ∈ claimants (.lib x) := by
  simp only [claimants]; rw [if_pos ho]
  exact List.mem_map.mpr ⟨d, List.mem_of_getElem? h, rfl⟩

theorem libOK_clearSent {x : Inst} (ok : LibOK x) : LibOK (clearSent x) :=
  libOK_of_fields x _ ok rfl rfl rfl rfl rfl rfl rfl

/-- contract of a step that started from an open instance -/
theorem contract_of_ann {P A : Nat → Prop} {x0 x' : Inst} (ho : x0.s.openState = 3) (ok' : LibOK x')
    (h : Ann P A (clearSent x0) x') :
    ∀ c ∈ claimants (.lib x'), c.2 < 252 →
      (frameOfClaim c ∈ x'.s.drv.sent ∧ c.1 < 2^64 ∧ c.2 < 256) ∨ (c ∈ claimants (.lib x0) ∧ ¬ A c.2) := by
  intro c hc hl
  obtain ⟨_, i, d', hd', rfl⟩ := claimants_lib_mem hc
  obtain ⟨out, h1, _, _, h4⟩ := h
  have dok := ok'.dev hd'
  have hs : x'.s.drv.sent = out := by rw [h1]; simp [clearSent]
  rcases h4 i d' hd' with h | ⟨_, d, hd, hn, hsrc, hna⟩
  · left; rw [hs, ← claimFrameL_eq d' dok.src_lt]; exact ⟨h, dok.1, dok.src_lt⟩
  · right
    have : (d.name, d.source) ∈ claimants (.lib x0) := mem_claimants_lib ho (by simpa [clearSent] using hd)
    rw [hn, hsrc] at this
    exact ⟨this, hna hl⟩

/-- `ParseMessages` of a library instance on the bus -/
theorem lib_parse_kstep (x0 : Inst) (ok : LibOK x0) (r : Option Rx) :
    KStep (Aof r) (.lib x0) (.lib (libParse x0 r.toList).1) (libParse x0 r.toList).2 := by
  have okc := libOK_clearSent ok
  unfold libParse
  simp only
  by_cases ho : x0.s.openState = 3
  · have hoc : (clearSent x0).s.openState = 3 := ho
    have p := parse_open_post (clearSent x0) okc hoc r
    exact ⟨p.1, rfl, contract_of_ann ho p.1 p.2⟩
  · have hoc : (clearSent x0).s.openState ≠ 3 := ho
    have op := openStep_post (clearSent x0) okc hoc
    rw [parse_closed (clearSent x0) hoc op.1.send]
    rcases op.2 with ⟨hclosed, _⟩ | ⟨hopen, out1, hs1, hall⟩
    · rw [if_pos hclosed]
      refine ⟨op.1, rfl, fun c hc _ => ?_⟩
      exact absurd (claimants_lib_mem hc).1 hclosed
    · rw [if_neg (fun h => h hopen), ← parse_open _ hopen op.1.send]
      have p := parse_open_post (Claim.openStep (clearSent x0)) op.1 hopen r
      refine ⟨p.1, rfl, fun c hc _ => Or.inl ?_⟩
      obtain ⟨_, i, d', hd', rfl⟩ := claimants_lib_mem hc
      obtain ⟨out2, h1, _, _, h4⟩ := p.2
      have dok := p.1.dev hd'
      refine ⟨?_, dok.1, dok.src_lt⟩
      rw [← claimFrameL_eq d' dok.src_lt, h1, hs1]
      rcases h4 i d' hd' with h | ⟨_, d, hd, hn, hsrc, _⟩
      · exact List.mem_append_right _ h
      · rw [← claimFrameL_congr hn hsrc]
        exact List.mem_append_left _ (List.mem_append_right _ (hall i d hd))

/-! ## Restart() -/

theorem startAddressClaim_noclaim (s : St) (i : Nat) (h : s.canClaim = false) : startAddressClaim s i = s := by
  unfold startAddressClaim; simp [h]

theorem startOne_closed (x : Inst) (ok : LibOK x) (hno : x.s.openState ≠ 3) (i : Nat) :
    LibOK (startOne x i) ∧ (startOne x i).s.openState = x.s.openState ∧ (startOne x i).s.drv.sent = x.s.drv.sent := by
  have key : ∀ x1 : Inst, LibOK x1 → Only i x x1 →
      LibOK { x1 with s := startAddressClaim x1.s i } ∧
      ({ x1 with s := startAddressClaim x1.s i } : Inst).s.openState = x.s.openState ∧
      ({ x1 with s := startAddressClaim x1.s i } : Inst).s.drv.sent = x.s.drv.sent := by
    intro x1 ok1 on1
    have hc : x1.s.canClaim = false := by
      have : x1.s.openState ≠ 3 := by rw [on1.openState]; exact hno
      simp [St.canClaim, this]
    rw [startAddressClaim_noclaim _ _ hc]
    exact ⟨ok1, on1.openState, on1.sent⟩
  unfold startOne
  cases hd : x.s.devs[i]? with
  | none => exact key x ok (Only.refl i x)
  | some d =>
    simp only
    by_cases h254 : d.source = Gen.nullCanBusAddress
    · rw [if_pos h254]
      have g := getNextAddress_ok x ok i true
      exact key _ g.1 g.2
    · rw [if_neg h254]
      exact key x ok (Only.refl i x)

theorem foldl_startOne_closed : ∀ (l : List Nat) (x : Inst), LibOK x → x.s.openState ≠ 3 →
    LibOK (l.foldl startOne x) ∧ (l.foldl startOne x).s.openState ≠ 3 ∧ (l.foldl startOne x).s.drv.sent = x.s.drv.sent
  | [], _, ok, hno => ⟨ok, hno, rfl⟩
  | i :: t, x, ok, hno => by
    simp only [List.foldl_cons]
    have h1 := startOne_closed x ok hno i
    have h2 := foldl_startOne_closed t (startOne x i) h1.1 (by rw [h1.2.1]; exact hno)
    exact ⟨h2.1, h2.2.1, by rw [h2.2.2, h1.2.2]⟩

theorem lib_restart_kstep (x0 : Inst) (ok : LibOK x0) :
    KStep None_ (.lib x0) (.lib (libRestart x0).1) (libRestart x0).2 := by
  have okc := libOK_clearSent ok
  unfold libRestart restart Claim.startAddressClaimAll
  simp only
  by_cases ho : x0.s.openState = 3
  · have hoc : (clearSent x0).s.openState = 3 := ho
    have p := foldl_startOne (List.range (clearSent x0).s.devs.length) (clearSent x0) okc hoc
    exact ⟨p.1, rfl, contract_of_ann ho p.1 p.2⟩
  · have hoc : (clearSent x0).s.openState ≠ 3 := ho
    have p := foldl_startOne_closed (List.range (clearSent x0).s.devs.length) (clearSent x0) okc hoc
    exact ⟨p.1, rfl, fun c hc _ => absurd (claimants_lib_mem hc).1 p.2.1⟩

/-! ## foreign nodes -/

theorem foreign_keep (A : Nat → Prop) (n : Iso.Node) (ok : KindOK (.foreign n))
    (hA : n.started = true → n.addr < 252 → ¬ A n.addr) : KStep A (.foreign n) (.foreign n) [] := by
  refine ⟨ok, rfl, fun c hc hl => Or.inr ⟨hc, ?_⟩⟩
  simp only [claimants] at hc
  by_cases hs : n.started = true
  · rw [if_pos hs] at hc
    have : c = (n.name, n.addr) := by simpa using hc
    subst this
    exact hA hs hl
  · rw [if_neg hs] at hc; cases hc

theorem foreign_move (A : Nat → Prop) (n : Iso.Node) (ok : KindOK (.foreign n)) (a : Nat) (ha : a < 256) :
    KStep A (.foreign n) (.foreign { n with addr := a, started := true }) [frameOfClaim (n.name, a)] := by
  obtain ⟨h1, _, h3⟩ := ok
  refine ⟨⟨h1, ha, h3⟩, rfl, fun c hc _ => Or.inl ?_⟩
  have : c = (n.name, a) := by simpa [claimants] using hc
  subst this
  exact ⟨by simp, h1, ha⟩

theorem kindRx_kstep (next : Iso.Node → Nat) (hnext : ∀ n, next n < 256) (k : Kind) (ok : KindOK k) (f : Frame) :
    KStep (fun a => ∃ c, decodeFor k f = some c ∧ a = c.2) k (kindRx next k f).1 (kindRx next k f).2 := by
  cases k with
  | lib x => exact lib_parse_kstep x ok (some (.frame f))
  | foreign n =>
    simp only [kindRx, decodeFor]
    cases hdec : Iso.decodeClaim f.id f.len f.data with
    | none => exact foreign_keep _ n ok (fun _ _ h => by obtain ⟨c, hc, _⟩ := h; cases hc)
    | some c =>
      simp only [Iso.onClaim, foreignOut]
      by_cases hc : n.started = true ∧ c.2 = n.addr ∧ c.2 ≤ Iso.maxAddr
      · rw [if_pos hc]
        have hst : n = { n with started := true } := by cases n; simp_all
        by_cases hlt : n.name < c.1
        · rw [if_pos hlt]
          have := foreign_move (fun a => ∃ c', some c = some c' ∧ a = c'.2) n ok n.addr ok.2.1
          have e : ({ n with addr := n.addr, started := true } : Iso.Node) = n := by cases n; simp_all
          rw [e] at this
          simpa using this
        · rw [if_neg hlt]
          have := foreign_move (fun a => ∃ c', some c = some c' ∧ a = c'.2) n ok (next n) (hnext n)
          have e : ({ n with addr := next n, started := true } : Iso.Node) = { n with addr := next n } := by
            cases n; simp_all
          rw [e] at this
          simpa using this
      · rw [if_neg hc]
        refine foreign_keep _ n ok (fun hs hl h => ?_)
        obtain ⟨c', hc', he⟩ := h
        cases hc'
        exact hc ⟨hs, he.symm, by unfold Iso.maxAddr; omega⟩

theorem kindPoll_kstep (k : Kind) (ok : KindOK k) : KStep None_ k (kindPoll k).1 (kindPoll k).2 := by
  cases k with
  | lib x => exact lib_parse_kstep x ok none
  | foreign n =>
    simp only [kindPoll, Iso.start, foreignOut]
    by_cases hs : n.started = true
    · rw [if_pos hs]; exact foreign_keep _ n ok (fun _ _ h => h)
    · rw [if_neg hs]
      have := foreign_move None_ n ok n.pref ok.2.2
      simpa using this

theorem kindCmd_kstep (k : Kind) (ok : KindOK k) (dst nm a : Nat) :
    KStep None_ k (kindCmd k dst nm a).1 (kindCmd k dst nm a).2 := by
  cases k with
  | lib x => exact lib_parse_kstep x ok (some (.cmd dst nm a))
  | foreign n =>
    simp only [kindCmd, Iso.onCommanded, foreignOut]
    by_cases hc : n.started = true ∧ nm = n.name ∧ a ≤ Iso.maxAddr ∧ a ≠ n.addr
    · rw [if_pos hc]
      have := foreign_move None_ n ok a (by have := hc.2.2.1; unfold Iso.maxAddr at this; omega)
      have e : ({ n with addr := a, started := true } : Iso.Node) = { n with addr := a } := by
        cases n; simp_all
      rw [e] at this
      simpa using this
    · rw [if_neg hc]; exact foreign_keep _ n ok (fun _ _ h => h)

theorem kindRestart_kstep (k : Kind) (ok : KindOK k) : KStep None_ k (kindRestart k).1 (kindRestart k).2 := by
  cases k with
  | lib x => exact lib_restart_kstep x ok
  | foreign n => exact foreign_keep _ n ok (fun _ _ h => h)

/-! ## a node acts on the bus -/

theorem onBus_of_claimants {k : Kind} (h : claimants k ≠ []) : onBus k = true := by
  cases k with
  | lib x =>
    simp only [claimants] at h
    by_cases ho : x.s.openState = 3
    · simp [onBus, ho]
    · rw [if_neg ho] at h; exact absurd rfl h
  | foreign f =>
    simp only [claimants] at h
    by_cases hs : f.started = true
    · simpa [onBus] using hs
    · rw [if_neg hs] at h; exact absurd rfl h

theorem act_node_self (b : Bus) (i : Nat) (r : Kind × List Frame) (inb : List Frame) :
    (act b i r inb).node i = ⟨r.1, inb⟩ := by simp [act, bcast, setNode]

theorem act_node_other (b : Bus) (i j : Nat) (hj : j ≠ i) (r : Kind × List Frame) (inb : List Frame) :
    (act b i r inb).node j =
      if onBus (b.node j).kind then { b.node j with inbox := (b.node j).inbox ++ r.2 } else b.node j := by
  simp [act, bcast, setNode, hj]

theorem act_kind_other (b : Bus) (i j : Nat) (hj : j ≠ i) (r : Kind × List Frame) (inb : List Frame) :
    ((act b i r inb).node j).kind = (b.node j).kind := by
  rw [act_node_other b i j hj]; split <;> rfl

/-- **one acting node**: `m` is the claim it consumed from its inbox (as it reads it), `A` its address -/
theorem act_inv (b : Bus) (ok : BusOK b) (hI : Inv (absBus b)) (i : Nat) (hi : i < b.n)
    (k' : Kind) (out inb : List Frame) (m : Option Iso.Claim) (A : Nat → Prop)
    (hk : KStep A (b.node i).kind k' out)
    (hinb : ∀ c ∈ (b.node i).inbox.filterMap (decodeFor (b.node i).kind), c ∈ inb.filterMap (decodeFor k') ∨ m = some c)
    (hA : ∀ m', m = some m' → A m'.2) :
    BusOK (act b i (k', out) inb) ∧ Inv (absBus (act b i (k', out) inb)) := by
  constructor
  · refine ⟨fun j hj => ?_, ok.next⟩
    by_cases hji : j = i
    · subst hji; rw [act_node_self]; exact hk.ok
    · rw [act_kind_other b i j hji]; exact ok.nodes j hj
  · refine inv_step (absBus b) _ i m rfl ?_ ?_ ?_ ?_ hI
    · intro j hj
      simp only [absBus, act_kind_other b i j hj]
    · intro j hj c hc
      simp only [absBus, act_kind_other b i j hj] at hc ⊢
      rw [act_node_other b i j hj]
      split
      · simp only [List.filterMap_append, List.mem_append]; exact Or.inl hc
      · exact hc
    · intro c hc
      simp only [absBus, act_node_self]
      exact hinb c hc
    · intro c hc hl
      simp only [absBus, act_node_self] at hc
      rcases hk.contract c hc hl with ⟨hout, hn, ha⟩ | ⟨hold, hna⟩
      · left
        intro j hj _ hne
        have hon : onBus (b.node j).kind = true := onBus_of_claimants hne
        simp only [absBus, act_kind_other b i j hj]
        rw [act_node_other b i j hj, if_pos hon]
        simp only [List.filterMap_append, List.mem_append]
        right
        exact List.mem_filterMap.mpr ⟨frameOfClaim c, hout, decode_frameOfClaim _ c hn ha⟩
      · right
        exact ⟨hold, fun m' hm he => hna (by rw [← he]; exact hA m' hm)⟩

theorem claimants_adv (dt : Nat) (k : Kind) : claimants (kindAdv dt k) = claimants k := by
  cases k <;> rfl

theorem decodeFor_adv (dt : Nat) (k : Kind) : decodeFor (kindAdv dt k) = decodeFor k := by
  cases k <;> rfl

theorem kindOK_adv (dt : Nat) (k : Kind) (ok : KindOK k) : KindOK (kindAdv dt k) := by
  cases k with
  | lib x => exact libOK_of_fields x _ ok rfl rfl rfl rfl rfl rfl rfl
  | foreign f => exact ok

/-- **every step of the concrete bus preserves the configuration hypotheses and the invariant** -/
theorem step_inv (b : Bus) (ok : BusOK b) (hI : Inv (absBus b)) (ev : Ev) :
    BusOK (step b ev) ∧ Inv (absBus (step b ev)) := by
  cases ev with
  | deliver i =>
    simp only [step]
    by_cases hi : i < b.n
    · rw [if_pos hi]
      cases hin : (b.node i).inbox with
      | nil => exact ⟨ok, hI⟩
      | cons f rest =>
        simp only
        have hk := kindRx_kstep b.next ok.next (b.node i).kind (ok.nodes i hi) f
        refine act_inv b ok hI i hi _ _ rest (decodeFor (b.node i).kind f) _ hk ?_ (fun m' hm => ⟨m', hm, rfl⟩)
        intro c hc
        rw [hin, List.filterMap_cons] at hc
        show c ∈ List.filterMap (decodeFor (kindRx b.next (b.node i).kind f).1) rest ∨ _
        rw [hk.same]
        cases hdec : decodeFor (b.node i).kind f with
        | none => rw [hdec] at hc; exact Or.inl hc
        | some c0 =>
          rw [hdec] at hc
          rcases List.mem_cons.mp hc with h | h
          · right; rw [h]
          · left; exact h
    · rw [if_neg hi]; exact ⟨ok, hI⟩
  | poll i =>
    simp only [step]
    by_cases hi : i < b.n
    · rw [if_pos hi]
      have hk := kindPoll_kstep (b.node i).kind (ok.nodes i hi)
      refine act_inv b ok hI i hi _ _ _ none _ hk (fun c hc => Or.inl ?_) (fun _ h => by cases h)
      show c ∈ List.filterMap (decodeFor (kindPoll (b.node i).kind).1) _
      rw [hk.same]; exact hc
    · rw [if_neg hi]; exact ⟨ok, hI⟩
  | adv dt =>
    simp only [step]
    constructor
    · exact ⟨fun j hj => kindOK_adv dt _ (ok.nodes j hj), ok.next⟩
    · intro x y hx hy hxy c hc c' hc' he ha
      simp only [absBus, claimants_adv, decodeFor_adv] at hc hc' ⊢
      exact hI x y hx hy hxy c hc c' hc' he ha
  | cmd i dst nm a =>
    simp only [step]
    by_cases hi : i < b.n
    · rw [if_pos hi]
      have hk := kindCmd_kstep (b.node i).kind (ok.nodes i hi) dst nm a
      refine act_inv b ok hI i hi _ _ _ none _ hk (fun c hc => Or.inl ?_) (fun _ h => by cases h)
      show c ∈ List.filterMap (decodeFor (kindCmd (b.node i).kind dst nm a).1) _
      rw [hk.same]; exact hc
    · rw [if_neg hi]; exact ⟨ok, hI⟩
  | restart i =>
    simp only [step]
    by_cases hi : i < b.n
    · rw [if_pos hi]
      have hk := kindRestart_kstep (b.node i).kind (ok.nodes i hi)
      refine act_inv b ok hI i hi _ _ _ none _ hk (fun c hc => Or.inl ?_) (fun _ h => by cases h)
      show c ∈ List.filterMap (decodeFor (kindRestart (b.node i).kind).1) _
      rw [hk.same]; exact hc
    · rw [if_neg hi]; exact ⟨ok, hI⟩

theorem run_inv : ∀ (evs : List Ev) (b : Bus), BusOK b → Inv (absBus b) →
    BusOK (run b evs) ∧ Inv (absBus (run b evs))
  | [], _, ok, hI => ⟨ok, hI⟩
  | ev :: t, b, ok, hI => by
    have h := step_inv b ok hI ev
    exact run_inv t (step b ev) h.1 h.2

end N2k.Bus
