import N2k.Gen.Constants
import N2k.Spec.Constants
/-! C01 — the source constants its model copies have the values the model and the property statement assume.
`N2k.Gen.Const.*` is regenerated from /repo/src on every run (tools/translators/constants.py); a changed constant breaks
the obligation below. -/
namespace N2k.C01.Consts

theorem C01_const_maxCanBusAddress : N2k.Gen.Const.maxCanBusAddress = N2k.Spec.Const.maxCanBusAddress := by decide
theorem C01_const_maxDataLen : N2k.Gen.Const.maxDataLen = N2k.Spec.Const.maxDataLen := by decide

end N2k.C01.Consts
