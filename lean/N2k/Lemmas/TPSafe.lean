import N2k.Model.TP
import N2k.Spec.IsoTp
/-! C10 / C07: safety of the transport-protocol receiver over EVERY frame history - an invariant of the receive slots and of the
handler calls against the reference bookkeeping `Spec.tpTrack`. Part 1: slots and deliveries (independent of the rest of the node). -/
namespace N2k.TP
open N2k.Send N2k.Time N2k.Spec

/-- the transport-protocol meaning of a received frame, as `SetN2kCANBufMsg` / `TestHandleTPMessage` decode it -/
def tpEvent (f : Frame) : TpEv :=
  let h := canIdToN2k f.id
  let buf := buf8 f
  if h.2.1 = TP_CM then
    if buf.getD 0 0 = 32 ∨ buf.getD 0 0 = 16 then
      .announce h.2.2.1 h.2.2.2 (buf.getD 5 0 + buf.getD 6 0 * 256 + buf.getD 7 0 * 65536) (buf.getD 1 0 + buf.getD 2 0 * 256)
    else .other
  else if h.2.1 = TP_DT then .data h.2.2.1 h.2.2.2 (buf.getD 0 0) ((buf.take f.len).drop 1)
  else .other

/-- a slot that holds a transport-protocol reception -/
def Live (a : Slot) : Prop := a.free = false ∧ a.tp = true

/-- the slot is explained by the history: the pair's open transfer has its PGN and size, the packets so far are its data -/
def Expl (evs : List TpEv) (a : Slot) : Prop :=
  a.dataLen ≤ 223 ∧ ∃ x, tpTrack a.src a.dst evs = some x ∧ x.pgn = a.pgn ∧ x.size = a.dataLen ∧
    a.lastFrame = x.pk.length ∧ a.data = x.pk.flatten.take 223

/-- a handler call caused by a transport-protocol transfer is good: at most 223 bytes, exactly `len` of them, and they are the
packets - complete and in order - of ONE transfer of its source/destination pair with its PGN and size, at some point of the history -/
def Good (evs : List TpEv) (d : Delivery) : Prop :=
  d.len ≤ 223 ∧ d.data.length = d.len ∧
  ∃ h x, h <+: evs ∧ tpTrack d.src d.dst h = some x ∧ x.pgn = d.pgn ∧ x.size = d.len ∧
    d.len ≤ x.pk.flatten.length ∧ d.data = x.pk.flatten.take d.len

structure RxInv (slots : List Slot) (out : List Delivery) (evs : List TpEv) : Prop where
  expl : ∀ a ∈ slots, Live a → Expl evs a
  uniq : ∀ (j j' : Nat) (a a' : Slot), slots[j]? = some a → slots[j']? = some a' → Live a → Live a' → a.src = a'.src → a.dst = a'.dst → j = j'
  good : ∀ d ∈ out, d.tp = true → Good evs d

theorem tpTrack_snoc (src dst : Nat) (evs : List TpEv) (e : TpEv) :
    tpTrack src dst (evs ++ [e]) = tpStep src dst (tpTrack src dst evs) e := by
  simp [tpTrack, List.foldl_append]

theorem Good.mono {evs : List TpEv} {d : Delivery} (e : TpEv) (h : Good evs d) : Good (evs ++ [e]) d := by
  obtain ⟨h1, h2, hh, x, hp, rest⟩ := h
  exact ⟨h1, h2, hh, x, hp.trans (List.prefix_append _ _), rest⟩

/-- every live slot of `slots'` was already there, unchanged -/
def Weaken (slots slots' : List Slot) : Prop :=
  ∀ (j : Nat) (b : Slot), slots'[j]? = some b → Live b → slots[j]? = some b

theorem Weaken.refl (l : List Slot) : Weaken l l := fun _ _ h _ => h
theorem Weaken.trans {a b c : List Slot} (h1 : Weaken a b) (h2 : Weaken b c) : Weaken a c :=
  fun j x hx hl => h1 j x (h2 j x hx hl) hl

theorem Weaken.set (l : List Slot) (j : Nat) (b : Slot) (hb : ¬ Live b) : Weaken l (l.set j b) := by
  unfold Weaken
  intro k x hx hl
  by_cases hk : j = k
  · subst hk
    by_cases hj : j < l.length
    · rw [List.getElem?_set_self hj] at hx; cases hx; exact absurd hl hb
    · rw [List.getElem?_eq_none (by simpa using hj)] at hx; cases hx
  · rw [List.getElem?_set_ne hk] at hx; exact hx

theorem not_live_free (a : Slot) : ¬ Live (freeMessage a) := by simp [Live, freeMessage]

theorem Weaken.modifyAt (l : List Slot) (j : Nat) : Weaken l (modifyAt l j freeMessage) := by
  unfold N2k.TP.modifyAt
  cases h : l[j]? with
  | none => exact Weaken.refl l
  | some a => exact Weaken.set l j _ (not_live_free a)

theorem Weaken.mapFree (l : List Slot) (src dst : Nat) : Weaken l (l.map (freeSess src dst)) := by
  unfold Weaken
  intro k x hx hl
  rw [List.getElem?_map] at hx
  cases h : l[k]? with
  | none => rw [h] at hx; cases hx
  | some a =>
    rw [h] at hx; simp only [Option.map_some, Option.some.injEq] at hx
    unfold freeSess at hx
    by_cases hs : sessOf src dst a = true
    · rw [if_pos hs] at hx; subst hx; exact absurd hl (not_live_free a)
    · rw [if_neg hs] at hx; subst hx; rfl

theorem findFree_eq_some (l : List Slot) (now32 pgn src dst : Nat) (tp : Bool) (i : Nat) (r2 : Option Nat) (r3 : Nat)
    (hscan : scanFree (slotHit pgn src dst tp) l 0 none now32 = (some i, r2, r3)) :
    findFree l now32 pgn src dst tp = (l, some i) := by
  unfold N2k.TP.findFree
  rw [hscan]
theorem findFree_eq_none (l : List Slot) (now32 pgn src dst : Nat) (tp : Bool) (r3 : Nat)
    (hscan : scanFree (slotHit pgn src dst tp) l 0 none now32 = (none, none, r3)) :
    findFree l now32 pgn src dst tp = (l, none) := by
  unfold N2k.TP.findFree
  rw [hscan]
theorem findFree_eq_old (l : List Slot) (now32 pgn src dst : Nat) (tp : Bool) (oi r3 : Nat)
    (hscan : scanFree (slotHit pgn src dst tp) l 0 none now32 = (none, some oi, r3)) :
    findFree l now32 pgn src dst tp = if hasElapsed r3 100 now32 then (N2k.TP.modifyAt l oi freeMessage, some oi) else (l, none) := by
  unfold N2k.TP.findFree
  rw [hscan]

theorem findFree_slots (l : List Slot) (now32 pgn src dst : Nat) (tp : Bool) :
    (findFree l now32 pgn src dst tp).1 = l ∨ ∃ oi, (findFree l now32 pgn src dst tp).1 = N2k.TP.modifyAt l oi freeMessage := by
  rcases hr : scanFree (slotHit pgn src dst tp) l 0 none now32 with ⟨r1, r2, r3⟩
  cases r1 with
  | some i => rw [findFree_eq_some l now32 pgn src dst tp i r2 r3 hr]; exact Or.inl rfl
  | none =>
    cases r2 with
    | none => rw [findFree_eq_none l now32 pgn src dst tp r3 hr]; exact Or.inl rfl
    | some oi =>
      rw [findFree_eq_old l now32 pgn src dst tp oi r3 hr]
      by_cases he : hasElapsed r3 100 now32 = true
      · rw [if_pos he]; exact Or.inr ⟨oi, rfl⟩
      · rw [if_neg he]; exact Or.inl rfl
theorem Weaken.findFree (l : List Slot) (now32 pgn src dst : Nat) (tp : Bool) : Weaken l (findFree l now32 pgn src dst tp).1 := by
  rcases findFree_slots l now32 pgn src dst tp with h | ⟨oi, h⟩
  · rw [h]; exact Weaken.refl l
  · rw [h]; exact Weaken.modifyAt l oi

/-- slots only lose live entries, the new event does not concern the pairs of the remaining ones: the invariant goes on -/
theorem RxInv.weaken {slots slots' : List Slot} {out : List Delivery} {evs : List TpEv} (h : RxInv slots out evs)
    (hw : Weaken slots slots') (e : TpEv)
    (hsame : ∀ b ∈ slots', Live b → tpStep b.src b.dst (tpTrack b.src b.dst evs) e = tpTrack b.src b.dst evs) :
    RxInv slots' out (evs ++ [e]) := by
  refine ⟨?_, ?_, fun d hd ht => (h.good d hd ht).mono e⟩
  · intro b hb hl
    obtain ⟨j, hj⟩ := List.getElem?_of_mem hb
    have hold := hw j b hj hl
    obtain ⟨h1, x, hx, rest⟩ := h.expl b (List.mem_of_getElem? hold) hl
    exact ⟨h1, x, by rw [tpTrack_snoc, hsame b hb hl]; exact hx, rest⟩
  · intro j j' a a' ha ha' hl hl' hs hd
    exact h.uniq j j' a a' (hw j a ha hl) (hw j' a' ha' hl') hl hl' hs hd

end N2k.TP
