import N2k.Lemmas.Actisense
/-!
# C17: what the reader has consumed versus what it holds (ghost history)

`Ghost hist s` ties the bytes consumed so far to the reader state: while a message is coming (and its
first byte is not 0x10) the history ends with `<10><02>` followed by the escaped buffer content.
`ghost_step` concludes that every reported message is the decoding of a complete frame at the end of
the consumed bytes.
-/
namespace N2k.Acti
set_option linter.unusedSimpArgs false

theorem escAll_append (a b : List Nat) : escAll (a ++ b) = escAll a ++ escAll b := by
  induction a with
  | nil => rfl
  | cons x t ih => simp [escAll, ih]

theorem decodeBody_type {ds now : Nat} {loc : Bool} {body : List Nat} {m : Msg}
    (h : decodeBody ds now loc body = some m) :
    body.getD 0 0 ≠ 0x10 := by
  unfold decodeBody at h
  intro h0
  simp only [h0] at h
  rw [if_neg (by rintro ⟨h1, _⟩; omega)] at h
  cases h

/-- relation between the bytes consumed so far (`hist`) and the reader state -/
structure Ghost (hist : List Nat) (s : RState) : Prop where
  esc : s.esc = true → ∃ pre, hist = pre ++ [0x10]
  sot : s.sot = true → s.coming = false ∧ s.pos = 0 ∧ ∃ pre, hist = pre ++ [0x10, 0x02]
  coming : s.coming = true → 1 ≤ s.pos ∧ (s.buf.getD 0 0 ≠ 0x10 →
    ∃ pre, hist = pre ++ [0x10, 0x02] ++ escAll (s.buf.take s.pos) ++ (if s.esc = true then [0x10] else []))

theorem Ghost.init (buf0 : List Nat) : Ghost [] (RState.init buf0) :=
  ⟨by simp [RState.init], by simp [RState.init], by simp [RState.init]⟩

theorem ghost_clear (hist : List Nat) (s : RState) : Ghost hist (clearBuffer s) :=
  ⟨by simp [clearBuffer], by simp [clearBuffer], by simp [clearBuffer]⟩

theorem ghost_start {hist : List Nat} (s : RState) (h : ∃ pre, hist = pre ++ [0x10]) :
    Ghost (hist ++ [0x02]) { clearBuffer s with sot := true } := by
  obtain ⟨pre, rfl⟩ := h
  exact ⟨by simp [clearBuffer], fun _ => ⟨rfl, rfl, pre, by simp⟩, by simp [clearBuffer]⟩

theorem ghost_append {hist : List Nat} {s s1 : RState} {b : Nat} (hg : Ghost hist s) (h : RInv s)
    (hc : s.coming = true) (hroom : s.pos < 300) (hbuf : s1.buf = s.buf.set s.pos b) (hp1 : s1.pos = s.pos + 1)
    (hs1 : s1.sot = false) (he1 : s1.esc = false)
    (hh : s.buf.getD 0 0 ≠ 0x10 → ∃ pre, hist ++ [b] = pre ++ [0x10, 0x02] ++ escAll (s.buf.take s.pos ++ [b])) :
    Ghost (hist ++ [b]) s1 := by
  have hpos := (hg.coming hc).1
  refine ⟨by rw [he1]; simp, by rw [hs1]; simp, fun _ => ⟨by omega, ?_⟩⟩
  intro h0
  have h0' : s.buf.getD 0 0 ≠ 0x10 := by
    rw [hbuf, getD_set] at h0
    have : ¬ (s.pos = 0 ∧ s.pos < s.buf.length) := by omega
    simpa [this] using h0
  obtain ⟨pre, hp⟩ := hh h0'
  refine ⟨pre, ?_⟩
  rw [hp1, hbuf, take_set_succ _ _ _ (by rw [h.len]; omega), he1, if_neg (by decide), List.append_nil]
  exact hp

/-- one consumed byte: the ghost relation is kept, and a reported message is the decoding of a
complete frame `<10><02> escaped(body) <10><03>` at the end of the consumed bytes -/
theorem ghost_step (c : Cfg) {hist : List Nat} {s s' : RState} {b : Nat} {k : Bool} {r : Option Msg}
    (hg : Ghost hist s) (h : RInv s) (hstep : readerStep c true s b = .ok (s', k, r)) :
    Ghost (hist ++ [b]) s' ∧
    (∀ m, r = some m → ∃ pre body, hist ++ [b] = pre ++ [0x10, 0x02] ++ escAll body ++ [0x10, 0x03] ∧
      decodeBody c.defaultSource c.now c.stampLocal body = some m) := by
  have hrep : ∀ m, r = some m → ∃ pre body, hist ++ [b] = pre ++ [0x10, 0x02] ++ escAll body ++ [0x10, 0x03] ∧
      decodeBody c.defaultSource c.now c.stampLocal body = some m := by
    -- the report
    obtain ⟨s2, k2, r2, h2, _, hrep, _⟩ := step_total c true b h
    rw [hstep] at h2
    simp only [Except.ok.injEq, Prod.mk.injEq] at h2
    intro m hm
    obtain ⟨hc, he, hb, hdec⟩ := hrep m (by rw [← h2.2.2]; exact hm)
    obtain ⟨hpos, hfr⟩ := hg.coming hc
    have h0 : s.buf.getD 0 0 ≠ 0x10 := by
      have := decodeBody_type hdec
      rwa [getD_take, if_pos (by omega)] at this
    obtain ⟨pre, hp⟩ := hfr h0
    rw [if_pos he] at hp
    exact ⟨pre, s.buf.take s.pos, by rw [hp, hb]; simp, hdec⟩
  refine ⟨?_, hrep⟩
  clear hrep
  unfold readerStep at hstep
  by_cases hc : s.coming = true
  · rw [if_pos hc] at hstep
    obtain ⟨hpos, hfr⟩ := hg.coming hc
    have hsot : s.sot = false := by
      cases hs : s.sot with
      | false => rfl
      | true => have := (hg.sot hs).1; rw [hc] at this; cases this
    by_cases he : s.esc = true
    · rw [if_pos he] at hstep
      by_cases h10 : b = 0x10
      · rw [if_pos h10] at hstep
        unfold addOrClear at hstep
        by_cases hp : s.pos < 300
        · obtain ⟨s1, hadd, hbuf, hp1, hs1, _, he1, _⟩ :=
            addByte_room c (s := { s with esc := false }) b (h.flags _ _ _) hp
          rw [hadd] at hstep
          simp only [Except.ok.injEq, Prod.mk.injEq, if_true] at hstep
          obtain ⟨rfl, _, _⟩ := hstep
          refine ghost_append hg h hc hp hbuf hp1 (by rw [hs1]; exact hsot) he1 ?_
          intro h0
          obtain ⟨pre, hpre⟩ := hfr h0
          rw [if_pos he] at hpre
          exact ⟨pre, by rw [hpre, h10, escAll_append]; simp [escAll, esc1]⟩
        · rw [addByte_full c b (by show 300 ≤ s.pos; omega)] at hstep
          simp only [Except.ok.injEq, Prod.mk.injEq] at hstep
          obtain ⟨rfl, _, _⟩ := hstep
          exact ghost_clear _ _
      · rw [if_neg h10] at hstep
        by_cases h3 : b = 0x03
        · rw [if_pos h3, bufGet_ok (by rw [h.len]; omega)] at hstep
          simp only [] at hstep
          by_cases ht : s.buf.getD 0 0 = 0x93 ∨ s.buf.getD 0 0 = 0x94
          · rw [if_pos ht, checkMessage_ok c h.len h.pos] at hstep
            simp only [Except.ok.injEq, Prod.mk.injEq] at hstep
            obtain ⟨rfl, _, _⟩ := hstep
            exact ghost_clear _ _
          · rw [if_neg ht] at hstep
            simp only [Except.ok.injEq, Prod.mk.injEq] at hstep
            obtain ⟨rfl, _, _⟩ := hstep
            exact ghost_clear _ _
        · rw [if_neg h3] at hstep
          by_cases h2 : b = 0x02
          · rw [if_pos h2] at hstep
            simp only [Except.ok.injEq, Prod.mk.injEq] at hstep
            obtain ⟨rfl, _, _⟩ := hstep
            rw [h2]; exact ghost_start s (hg.esc he)
          · rw [if_neg h2] at hstep
            simp only [Except.ok.injEq, Prod.mk.injEq] at hstep
            obtain ⟨rfl, _, _⟩ := hstep
            exact ghost_clear _ _
    · rw [if_neg he] at hstep
      have he' := bool_not_true he
      by_cases h10 : b = 0x10
      · rw [if_pos h10] at hstep
        simp only [Except.ok.injEq, Prod.mk.injEq] at hstep
        obtain ⟨rfl, _, _⟩ := hstep
        refine ⟨fun _ => ⟨hist, by rw [h10]⟩, by simp [hsot], fun _ => ⟨hpos, ?_⟩⟩
        intro h0
        obtain ⟨pre, hpre⟩ := hfr h0
        rw [if_neg he, List.append_nil] at hpre
        exact ⟨pre, by rw [hpre, h10]; simp⟩
      · rw [if_neg h10] at hstep
        unfold addOrClear at hstep
        by_cases hp : s.pos < 300
        · obtain ⟨s1, hadd, hbuf, hp1, hs1, _, he1, _⟩ := addByte_room c b h hp
          rw [hadd] at hstep
          simp only [Except.ok.injEq, Prod.mk.injEq, if_true] at hstep
          obtain ⟨rfl, _, _⟩ := hstep
          refine ghost_append hg h hc hp hbuf hp1 (by rw [hs1]; exact hsot) (by rw [he1]; exact he') ?_
          intro h0
          obtain ⟨pre, hpre⟩ := hfr h0
          rw [if_neg he, List.append_nil] at hpre
          exact ⟨pre, by rw [hpre, escAll_append]; simp [escAll, esc1, h10]⟩
        · rw [addByte_full c b (by omega)] at hstep
          simp only [Except.ok.injEq, Prod.mk.injEq] at hstep
          obtain ⟨rfl, _, _⟩ := hstep
          exact ghost_clear _ _
  · rw [if_neg hc] at hstep
    have hc' := bool_not_true hc
    by_cases h2 : b = 0x02
    · rw [if_pos h2] at hstep
      by_cases he : s.esc = true
      · rw [if_pos he] at hstep
        simp only [Except.ok.injEq, Prod.mk.injEq] at hstep
        obtain ⟨rfl, _, _⟩ := hstep
        rw [h2]; exact ghost_start s (hg.esc he)
      · rw [if_neg he] at hstep
        simp only [Except.ok.injEq, Prod.mk.injEq] at hstep
        obtain ⟨rfl, _, _⟩ := hstep
        exact ⟨by simp [bool_not_true he], by simp, by simp [hc']⟩
    · rw [if_neg h2] at hstep
      by_cases hs : s.sot = true
      · rw [if_pos hs] at hstep
        obtain ⟨_, hp0, pre, hpre⟩ := hg.sot hs
        obtain ⟨s1, hadd, hbuf, hp1, hs1, hc1, he1, _⟩ :=
          addByte_room c (s := { s with esc := decide (b = 0x10), sot := false, coming := true }) b
            (h.flags _ _ _) (by show s.pos < 300; omega)
        rw [hadd] at hstep
        simp only [Except.ok.injEq, Prod.mk.injEq] at hstep
        obtain ⟨rfl, _, _⟩ := hstep
        refine ⟨?_, by rw [hs1]; simp, fun _ => ⟨by rw [hp1]; show 1 ≤ s.pos + 1; omega, ?_⟩⟩
        · intro he; rw [he1] at he
          have : b = 0x10 := by simpa using he
          exact ⟨hist, by rw [this]⟩
        · intro h0
          have hb0 : s1.buf.getD 0 0 = b := by
            rw [hbuf]; show (s.buf.set s.pos b).getD 0 0 = b
            rw [getD_set, if_pos ⟨hp0, by rw [h.len]; omega⟩]
          rw [hb0] at h0
          refine ⟨pre, ?_⟩
          rw [hp1, hbuf, he1]
          show hist ++ [b] = pre ++ [0x10, 0x02] ++ escAll (List.take (s.pos + 1) (s.buf.set s.pos b)) ++ _
          rw [take_set_succ _ _ _ (by rw [h.len]; omega), hp0, hpre]
          simp [escAll, esc1, h0]
      · rw [if_neg hs] at hstep
        simp only [Except.ok.injEq, Prod.mk.injEq] at hstep
        obtain ⟨rfl, _, _⟩ := hstep
        refine ⟨?_, by simp [bool_not_true hs], by simp [hc']⟩
        intro he
        have : b = 0x10 := by simpa using he
        exact ⟨hist, by rw [this]⟩

/-- running the reader over consumed bytes keeps invariant and ghost relation -/
theorem ghost_feed (c : Cfg) (bytes : List Nat) : ∀ {hist : List Nat} {s s' : RState} {ms : List Msg},
    Ghost hist s → RInv s → feed c s bytes = .ok (s', ms) → Ghost (hist ++ bytes) s' ∧ RInv s' := by
  induction bytes with
  | nil =>
    intro hist s s' ms hg h hf
    simp only [feed, Except.ok.injEq, Prod.mk.injEq] at hf
    rw [← hf.1, List.append_nil]; exact ⟨hg, h⟩
  | cons b t ih =>
    intro hist s s' ms hg h hf
    obtain ⟨s1, k, r, hstep, hi, _⟩ := step_total c true b h
    simp only [feed, hstep] at hf
    obtain ⟨s2, ms2, hf2, _⟩ := feed_total c t hi
    rw [hf2] at hf
    simp only [Except.ok.injEq, Prod.mk.injEq] at hf
    have := ih (ghost_step c hg h hstep).1 hi hf2
    rw [← hf.1]
    simpa using this

end N2k.Acti
