/-! FROZEN values of the source constants that the hand-written models and the property statements use
(claim window 250 ms, settle time 200 ms, 223-byte payload, …). Never generated from /repo. -/
namespace N2k.Spec.Const

def actisenseReaderBufLen : Nat := 300
def addressClaimTimeoutMs : Nat := 250
def defaultCanMsgBufs : Nat := 5
def defaultCanSendFrames : Nat := 40
def heartbeatDefaultIntervalMs : Nat := 60000
def heartbeatDefaultOffsetMs : Nat := 10000
def maxBusDevices : Nat := 254
def maxCanBusAddress : Nat := 251
def maxConfigurationInfoFieldLen : Nat := 71
def maxDataLen : Nat := 223
def maxModelIdLen : Nat := 32
def maxModelSerialCodeLen : Nat := 32
def maxModelVersionLen : Nat := 32
def maxPgnsInList : Nat := 74
def maxReadFramesOnParse : Nat := 20
def maxSatelliteInfoCount : Nat := 18
def maxSwCodeLen : Nat := 32
def msgBufTimeMs : Nat := 100
def nullCanBusAddress : Nat := 254
def openRetryMs : Nat := 1000
def openSettleMs : Nat := 200
def tpCm : Nat := 60416
def tpCmAbort : Nat := 255
def tpCmAck : Nat := 19
def tpCmBam : Nat := 32
def tpCmCts : Nat := 17
def tpCmRts : Nat := 16
def tpDt : Nat := 60160
def tpMaxFrames : Nat := 5

end N2k.Spec.Const
