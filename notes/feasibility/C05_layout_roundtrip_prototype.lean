/-! Prototype: bit-level layout language for setter/parser pairs and the generic round-trip theorem. -/
namespace Layout

inductive BitSrc where
  | zero | one
  | param (p i : Nat)
  deriving DecidableEq, Repr

/-- setter: payload bit k (k = 8*byte + bitInByte, LSB first) ↦ source -/
abbrev Setter := List BitSrc
/-- parser: for each output parameter, for each output bit (LSB first), the payload bit it reads (none = constant 0) -/
abbrev Parser := List (List (Option Nat))

def ofBits : List Bool → Nat
  | [] => 0
  | b :: t => (if b then 1 else 0) + 2 * ofBits t

theorem ofBits_testBit : ∀ (l : List Bool) (i : Nat), (ofBits l).testBit i = l.getD i false
  | [], i => by simp [ofBits]
  | b :: t, 0 => by
      cases b <;> simp [ofBits, Nat.testBit_zero] <;> omega
  | b :: t, i+1 => by
      have := ofBits_testBit t i
      rw [ofBits, Nat.testBit_succ]
      have h : ((if b = true then 1 else 0) + 2 * ofBits t) / 2 = ofBits t := by
        cases b <;> simp <;> omega
      rw [h, this]; simp

def srcVal (params : Nat → Nat) : BitSrc → Bool
  | .zero => false
  | .one => true
  | .param p i => (params p).testBit i

def encode (S : Setter) (params : Nat → Nat) : List Bool := S.map (srcVal params)

def decodeOne (payload : List Bool) (bits : List (Option Nat)) : Nat :=
  ofBits (bits.map fun | none => false | some k => payload.getD k false)

def decode (P : Parser) (payload : List Bool) : List Nat := P.map (decodeOne payload)

/-- output bit i of parameter o is wired to the setter's bit (o,i) when i < W, and to a constant 0 otherwise -/
def bitOK (S : Setter) (o W i : Nat) (b : Option Nat) : Bool :=
  match b with
  | none => decide (W ≤ i)
  | some k => if i < W then S[k]? == some (.param o i) else S[k]? == some .zero

def outOK (S : Setter) (o W : Nat) (bits : List (Option Nat)) : Bool :=
  decide (W ≤ bits.length) && (List.range bits.length).all fun i => bitOK S o W i (bits.getD i none)

def mirrors (S : Setter) (P : Parser) (W : Nat → Nat) : Bool :=
  (List.range P.length).all fun o => outOK S o (W o) (P.getD o [])

theorem decodeOne_eq (S : Setter) (params : Nat → Nat) (o W : Nat) (bits : List (Option Nat))
    (hok : outOK S o W bits = true) (hlt : params o < 2 ^ W) :
    decodeOne (encode S params) bits = params o := by
  simp only [outOK, Bool.and_eq_true, decide_eq_true_eq, List.all_eq_true, List.mem_range] at hok
  obtain ⟨hW, hbits⟩ := hok
  apply Nat.eq_of_testBit_eq
  intro i
  unfold decodeOne
  rw [ofBits_testBit]
  by_cases hi : i < bits.length
  · have hb := hbits i hi
    rw [List.getD_eq_getElem?_getD, List.getElem?_map]
    have hget : bits[i]? = some (bits.getD i none) := by
      rw [List.getD_eq_getElem?_getD, List.getElem?_eq_getElem hi]; rfl
    rw [hget]
    simp only [Option.map_some, Option.getD_some]
    generalize bits.getD i none = b at hb
    cases b with
    | none =>
      simp only [bitOK, decide_eq_true_eq] at hb
      exact (Nat.testBit_lt_two_pow (Nat.lt_of_lt_of_le hlt (Nat.pow_le_pow_right (by omega) hb))).symm
    | some k =>
      simp only [bitOK] at hb
      by_cases hiW : i < W
      · simp only [hiW, ↓reduceIte, beq_iff_eq] at hb
        simp [encode, List.getD_eq_getElem?_getD, List.getElem?_map, hb, srcVal]
      · simp only [hiW, ↓reduceIte, beq_iff_eq] at hb
        simp only [encode, List.getD_eq_getElem?_getD, List.getElem?_map, hb, Option.map_some,
          Option.getD_some, srcVal]
        exact (Nat.testBit_lt_two_pow (Nat.lt_of_lt_of_le hlt (Nat.pow_le_pow_right (by omega) (by omega)))).symm
  · have hge : bits.length ≤ i := by omega
    rw [List.getD_eq_getElem?_getD, List.getElem?_map, List.getElem?_eq_none hge]
    simp only [Option.map_none, Option.getD_none]
    exact (Nat.testBit_lt_two_pow (Nat.lt_of_lt_of_le hlt (Nat.pow_le_pow_right (by omega) (by omega)))).symm

theorem roundtrip (S : Setter) (P : Parser) (W params : Nat → Nat)
    (hm : mirrors S P W = true) (hr : ∀ o, o < P.length → params o < 2 ^ W o) :
    decode P (encode S params) = (List.range P.length).map params := by
  simp only [mirrors, List.all_eq_true, List.mem_range] at hm
  apply List.ext_getElem
  · simp [decode]
  · intro o h1 h2
    simp only [decode, List.length_map] at h1
    simp only [decode, List.getElem_map, List.getElem_range]
    have := hm o h1
    rw [List.getD_eq_getElem?_getD, List.getElem?_eq_getElem h1] at this
    exact decodeOne_eq S params o (W o) _ this (hr o h1)

/-- example: PGN 127505 byte 0 = (Instance & 0x0f) | ((FluidType & 0x0f) << 4); parser masks 0x0f -/
def s127505b0 : Setter := [.param 0 0, .param 0 1, .param 0 2, .param 0 3, .param 1 0, .param 1 1, .param 1 2, .param 1 3]
def p127505b0 : Parser := [[some 0, some 1, some 2, some 3, none, none, none, none],
                           [some 4, some 5, some 6, some 7]]
example : mirrors s127505b0 p127505b0 (fun _ => 4) = true := by decide
/-- a parser with too narrow a mask (0x04 instead of 0x0f, as in ParseN2kPGN127510) does not mirror -/
example : mirrors s127505b0 [[none, none, some 2, none], [some 4, some 5, some 6, some 7]] (fun _ => 4) = false := by decide

#print axioms roundtrip
end Layout
