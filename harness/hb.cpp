// C12 / C13 harness: the REAL tNMEA2000 node (open, address claim, heartbeat) behind the mock driver, under a virtual clock.
// A `scenario` line starts a group of runs of ONE script from several clock origins; each run starts with `reset0`.
// ops:  scenario <id>
//       reset0 <t32|t64> <qsize> <mode> <now> <src:namehex>...   (a node constructed at time <now>; fields filled in by the harness)
//       t <ms> | poll | run <n> (n times: poll, advance 1 ms) | acc <bits> | accdef <0|1> | canopen <0|1> | claim <dev>
//       hbset <interval> <offset> <dev|-1> | hbforce | hbdev <dev> | get | m64
//       devlist <originA> <originB>   (device-list request pacing probe run from two origins, traces compared; oracle only)
//       probe <tp|slots|pend> <originA> <originB>   (ISO-TP / reassembly-slot ageing / pending-information scenario from two origins; oracle only)
//       gfreq <dev|-1> <interval ms> <offset 10ms> <pairs>   (PGN 126208 request for PGN 126993 from source 50 arrives, then one poll;
//                                                           output = the heartbeat frames only, acknowledgements are C09's)
// C12 oracle: heartbeat grid computed from the observed open time, the default interval 60 s, the offset in force after open
//             (read back from the node: the property leaves the default offset open) and the configured interval/offset only, payload decoded with
//             the published layout, sequence counted by the harness.   C13 oracle: the outputs of the runs of a group are compared.
#include "node.h"
#include "N2kDeviceList.h"
#include <memory>
using namespace vh;
static Ctx C;

struct SS : public tN2kSyncScheduler { static uint64_t so() { return SyncOffset; } };

struct Node : public MockN2k {
  unsigned char src(int i) { return Devices[i].N2kSource; }
  uint64_t name(int i) { return Devices[i].DeviceInformation.GetName(); }
  void claim(int i) { StartAddressClaim(i); }
  uint16_t maxq() { return MaxCANSendFrames; }
  unsigned queued() { return MaxCANSendFrames ? (CANSendFrameBufferWrite + MaxCANSendFrames - CANSendFrameBufferRead) % MaxCANSendFrames : 0; }
  uint32_t hbP(int i) { return Devices[i].HeartbeatScheduler.GetPeriod(); }
  uint32_t hbO(int i) { return Devices[i].HeartbeatScheduler.GetOffset(); }
  bool hbDis(int i) { return Devices[i].HeartbeatScheduler.IsDisabled(); }
  uint64_t hbNext(int i) { return Devices[i].HeartbeatScheduler.GetNextTime(); }
  unsigned hbSeq(int i) { return Devices[i].HeartbeatSequence; }
  bool claimTimerOn(int i) { return Devices[i].AddressClaimTimer.IsEnabled(); }
};

#ifdef N2K_VERIF_T32
static const char *FLAVOR = "t32";
static const bool T32B = true;
#else
static const char *FLAVOR = "t64";
static const bool T32B = false;
#endif

static Node *N = nullptr;
static int nDev = 0, mode = 1;
static uint64_t originNow = 0, base64 = 0;

// ------------------------------------------------------------------------------------------------ C12 oracle state
static const uint32_t KEEP = 0xffffffffu, RESTORE = 0xfffffffeu;
struct ODev {
  uint32_t P = 0, O = 0;          // configured interval (0 = disabled) and offset, as the application configured them
  uint64_t G = 0;                 // next grid point
  unsigned seq = 0;               // next scheduled sequence value
  int64_t claimFrom = -1000000;   // start of the last claim window
  bool reenabledSame = false;     // disabled, then configured with the interval it had before
  bool forcedWhileDisabled = false;
  bool keepAllTouched = false;    // a "keep current" call for all devices happened while this device differed from device 0
};
static ODev od[16];
static bool oOpen = false, backpressure = false, preOpenConfig = false;
static bool claimOnBefore[16];   // the device's address-claim timer was armed when the poll started (its length is not C12's subject)
static uint64_t T0 = 0;
static long hbScheduled = 0, hbForced = 0;
static bool caseWrapSeq = false, caseLate = false, caseAbove65535 = false;

static uint64_t leastGridAfter(const ODev &d, uint64_t t) {
  uint64_t base = T0 + d.O;
  if (base > t) return base;
  return base + ((t - base) / d.P + 1) * d.P;
}
static bool active() { return mode == 1 || mode == 2; }

static void onOpened() {
  oOpen = true; T0 = g_now;
  for (int d = 0; d < nDev; d++) { od[d].P = 60000; od[d].O = N->GetHeartbeatOffset(d) /* the default offset is not fixed by the property: learn the one in force */; od[d].G = leastGridAfter(od[d], g_now); od[d].claimFrom = active() ? (int64_t)g_now : -1000000; od[d].reenabledSame = od[d].forcedWhileDisabled = false; }
}

// the documented meaning of SetHeartbeatIntervalAndOffset (NMEA2000.h): interval 0xffffffff keep, 0xfffffffe default (60000),
// 0 disable, otherwise 1000..655320 ms; offset 0xffffffff keep; iDev -1 all devices
static void oracleConfig(uint32_t iv, uint32_t off, int dev) {
  if (iv == KEEP && off == 0xffff) return;     // "Do not change" (source comment)
  if (!oOpen) { preOpenConfig = true; return; }
  for (int d = 0; d < nDev; d++) {
    if (dev >= 0 && d != dev) continue;
    ODev &o = od[d];
    if (dev < 0 && d > 0 && ((iv == KEEP && o.P != od[0].P) || (off == KEEP && o.O != od[0].O))) o.keepAllTouched = true;
    uint32_t nP = iv == KEEP ? o.P : iv == RESTORE ? 60000u : iv;
    uint32_t nO = off == KEEP ? o.O : off;
    if (nP != 0) { if (nP > 655320u) nP = 655320u; if (nP < 1000u) nP = 1000u; }
    if (iv != KEEP && off != KEEP) o.keepAllTouched = false;
    if (nP == 0) { o.P = 0; o.O = nO; continue; }
    bool was = o.P != 0;
    if (!was || nP != o.P || nO != o.O) {
      o.P = nP; o.O = nO; o.G = leastGridAfter(o, g_now);
      o.forcedWhileDisabled = false;
    }
  }
}

struct HbFrame { int dev; unsigned seq; unsigned field; bool layoutOk; };
static bool isHb(const Frame &f) { return ((f.id >> 8) & 0x1ffff) == 126993UL; }
static int devOfSrc(unsigned s) { for (int d = 0; d < nDev; d++) if (N->src(d) == s) return d; return -1; }

static void checkPayload(const Frame &f, int d, bool forced) {
  const ODev &o = od[d];
  // the property fixes the interval field (bytes 0-1, 10 ms) and the sequence counter (byte 2); priority, the remaining bytes
  // ("reserved" in the edition the library implements, status fields in later ones) and their values are left open: counted only
  bool ok = f.len >= 3 && f.len <= 8;
  if (!ok) C.fail("C12:layout", "heartbeat frame %s is too short for the interval and sequence fields", frameStr(f).c_str());
  if (!(f.len == 8 && ((f.id >> 26) & 7) == 7 && f.buf[3] == 0xff && f.buf[4] == 0xff && f.buf[5] == 0xff && f.buf[6] == 0xff && f.buf[7] == 0xff)) C.count("heartbeat_frames_with_other_priority_or_tail");
  unsigned field = f.buf[0] | (f.buf[1] << 8);
  if (o.P != 0) {
    long dec = (long)field * 10; long want = (long)o.P;
    if (o.P > 65535) caseAbove65535 = true;
    if (!(dec <= want && want - dec < 10)) {
      const char *key = field == (o.P & 0xffff) ? "C12:interval-units" : (o.keepAllTouched ? "C12:keep-interval-multidevice" : "C12:interval-field");
      C.fail(key, "dev %d configured interval %u ms, field %u (x10 ms = %ld ms)", d, o.P, field, dec);
    }
  }
  (void)forced;
}

// frames accepted by the driver during one ParseMessages() call at time g_now
static void oraclePoll(const std::vector<Frame> &fr) {
  int cnt[16] = {0};
  for (auto &f : fr) {
    if (!isHb(f)) continue;
    if (!active()) { C.fail("C12:inactive-sends", "mode %d sent %s", mode, frameStr(f).c_str()); continue; }
    int d = devOfSrc(f.id & 0xff); if (d < 0) { C.fail("C12:layout", "heartbeat from unknown source %s", frameStr(f).c_str()); continue; }
    if (backpressure) continue;   // frames may have waited in the send queue: timing not attributable to this poll
    ODev &o = od[d]; cnt[d]++; hbScheduled++;
    unsigned seq = f.buf[2];
    uint64_t t = g_now;
    if (seq != o.seq) C.fail("C12:sequence", "dev %d sequence %u, expected %u", d, seq, o.seq);
    o.seq = (seq == 0xff ? o.seq : seq + 1) % 253; if (o.seq == 0) caseWrapSeq = true;
    if (o.P == 0) { C.fail(o.forcedWhileDisabled ? "C12:forced-reenables-disabled" : "C12:sent-while-disabled", "dev %d heartbeat at +%llu with interval 0 configured", d, (unsigned long long)(t - T0)); continue; }
    if ((int64_t)t < o.claimFrom + 250) C.count("heartbeat_inside_250ms_after_claim");   // silence while claiming is C04's demand, not C12's
    if (t < o.G) C.fail(o.keepAllTouched ? "C12:keep-interval-multidevice" : "C12:early", "dev %d heartbeat at +%llu, grid point +%llu (interval %u offset %u)", d, (unsigned long long)(t - T0), (unsigned long long)(o.G - T0), o.P, o.O);
    if (t > o.G + 1) caseLate = true;
    checkPayload(f, d, false);
    o.G = leastGridAfter(o, t);
    o.reenabledSame = false;
  }
  if (!oOpen || !active() || backpressure || preOpenConfig) return;
  for (int d = 0; d < nDev; d++) {
    ODev &o = od[d];
    if (cnt[d] > 1) C.fail("C12:two-in-one-poll", "dev %d sent %d heartbeats in one poll", d, cnt[d]);
    // (the claim window's length is not C12's subject: learnt from the node's claim timer, but a timer still armed 2 s after the claim
    //  - it is only disarmed lazily - no longer excuses a missing heartbeat)
    if (cnt[d] == 0 && o.P != 0 && (!claimOnBefore[d] || (int64_t)g_now > o.claimFrom + 2000) && g_now > o.G)
      { C.fail(o.reenabledSame ? "C12:reenable-same-interval" : (o.keepAllTouched ? "C12:keep-interval-multidevice" : "C12:missed"), "dev %d no heartbeat at +%llu, grid point +%llu passed (interval %u offset %u)", d, (unsigned long long)(g_now - T0), (unsigned long long)(o.G - T0), o.P, o.O);
        o.G = leastGridAfter(o, g_now); }   // report once per grid point
  }
}

// ------------------------------------------------------------------------------------------------ C13 bookkeeping
struct Run { uint64_t origin; std::vector<std::string> ops, outs; std::vector<uint64_t> rel; bool risk = false, sparse = false, boundary = false; long firstLine = 0; uint64_t endRel = 0; };
static std::vector<Run> group;
static std::string groupId;
static bool inRun = false;

// 32-bit build: does a FromNow(add) executed at one of the n instants now..now+n-1 land on the 0xFFFFFFFF sentinel?
static void noteRisk(uint64_t now, uint64_t n, bool ctor) {
  if (!T32B || !inRun) return;
  static const uint32_t adds[] = {200, 250, 1000, 0};
  for (int i = 0; i < (ctor ? 4 : 3); i++) {
    uint32_t c = 0xFFFFFFFFu - adds[i]; uint32_t dist = c - (uint32_t)now;
    if ((uint64_t)dist < n) group.back().risk = true;
  }
}

// An operation of the script (configuration, forced heartbeat, claim, driver behaviour) that executes within 2 ms of a grid point or
// of the end of a claim window: if one of the two runs had its open deadline armed 1 ms late (sentinel slack), the operation falls on
// the other side of that instant and the traces legitimately differ by a whole heartbeat. Such pairs are not comparable.
static void noteBoundary() {
  if (!T32B || !inRun || !oOpen) return;
  for (int d = 0; d < nDev; d++) {
    const ODev &o = od[d];
    int64_t c = (int64_t)g_now - (o.claimFrom + 250); if (c >= -5 && c <= 5) group.back().boundary = true;
    if (o.P == 0) continue;
    int64_t a = (int64_t)g_now - (int64_t)o.G, b = a + (int64_t)o.P;
    if ((a >= -2 && a <= 2) || (b >= -2 && b <= 2)) group.back().boundary = true;
  }
}

struct Ev { uint64_t t; std::string f; };
static std::vector<Ev> events(const Run &r) {
  std::vector<Ev> e;
  for (size_t i = 0; i < r.ops.size(); i++) {
    std::vector<std::string> w = split(r.ops[i]);
    if (w[0] == "get" || w[0] == "m64" || w[0] == "reset0") continue;
    for (auto &tok : split(r.outs[i])) {
      if (tok == "-" || tok == "ok" || tok == "closed") continue;
      if (w[0] == "run") { size_t c = tok.find(':'); e.push_back({r.rel[i] + strtoull(tok.substr(0, c).c_str(), 0, 10), tok.substr(c + 1)}); }
      else e.push_back({r.rel[i], tok});
    }
  }
  return e;
}

static void finishGroup() {
  if (group.empty()) return;
  C.cases++;
  const Run &a = group[0];
  for (size_t k = 1; k < group.size(); k++) {
    const Run &b = group[k];
    bool same = a.ops.size() == b.ops.size();
    for (size_t i = 1; same && i < a.ops.size(); i++) if (a.ops[i] != b.ops[i]) same = false;
    if (!same) { C.count("c13_pairs_not_comparable"); continue; }
    C.count("c13_pairs_compared");
    size_t diff = 0; bool differs = false;
    for (size_t i = 1; i < a.outs.size(); i++) if (a.outs[i] != b.outs[i]) { diff = i; differs = true; break; }
    if (!differs) continue;
    std::string kind = split(a.ops[diff])[0];
    if (a.risk || b.risk) {
      // a FromNow() landed on the scheduler's "disabled" value in one of the runs: that deadline is armed 1 ms later (documented slack)
      if (a.sparse) { C.count("c13_pairs_skipped_sentinel_sparse"); continue; }
      std::vector<Ev> ea = events(a), eb = events(b);
      // an event in the last 2 ms of the script may fall outside the other run's (1 ms later) window: surplus events at the very end are allowed
      uint64_t end = a.endRel < b.endRel ? a.endRel : b.endRel;
      bool ok = true; std::string firstDiff = "event counts " + std::to_string(ea.size()) + " / " + std::to_string(eb.size());
      { const std::vector<Ev> &lg = ea.size() > eb.size() ? ea : eb; size_t mn = ea.size() < eb.size() ? ea.size() : eb.size(); for (size_t i = mn; i < lg.size(); i++) if (lg[i].t + 2 < end) ok = false; }
      for (size_t i = 0; i < ea.size() && i < eb.size(); i++) { uint64_t d = ea[i].t > eb[i].t ? ea[i].t - eb[i].t : eb[i].t - ea[i].t; if (ea[i].f != eb[i].f || d > 1) { ok = false; firstDiff = "event " + std::to_string(i) + ": +" + std::to_string(ea[i].t) + " " + ea[i].f + " / +" + std::to_string(eb[i].t) + " " + eb[i].f; break; } }
      if (!ok && (a.boundary || b.boundary)) { C.count("c13_pairs_skipped_sentinel_at_grid_boundary"); continue; }
      C.count(ok ? "c13_pairs_within_1ms_sentinel" : "c13_pairs_sentinel_beyond_1ms");
      if (ok) continue;
      C.fail(std::string("C13:origin-dependence:") + FLAVOR + ":" + kind + ":beyond-1ms", "scenario %s origins %llu / %llu: traces differ by more than the 1 ms sentinel slack (first differing output at op %zu `%s`; %s)", groupId.c_str(), (unsigned long long)a.origin, (unsigned long long)b.origin, diff, a.ops[diff].c_str(), firstDiff.c_str());
      continue;
    }
    C.fail(std::string("C13:origin-dependence:") + FLAVOR + ":" + kind, "scenario %s origins %llu / %llu: op %zu `%s` gives `%s` / `%s`", groupId.c_str(), (unsigned long long)a.origin, (unsigned long long)b.origin, diff, a.ops[diff].c_str(), a.outs[diff].substr(0, 200).c_str(), b.outs[diff].substr(0, 200).c_str());
  }
  std::string desc = groupId; for (auto &o : a.ops) { desc += o; desc += ';'; }
  if (group.size() > 1 && (caseWrapSeq || caseLate || caseAbove65535)) C.nontrivial(desc);
  if (caseWrapSeq) C.count("cases_sequence_wrapped"); if (caseLate) C.count("cases_with_late_polls"); if (caseAbove65535) C.count("cases_interval_above_65535");
  caseWrapSeq = caseLate = caseAbove65535 = false;
  group.clear(); inRun = false;
}

static void emit(const std::string &out) {
  C.outs(out);
  if (inRun) { group.back().outs.push_back(out); group.back().endRel = g_now - originNow; }
}

static std::string framesOut(std::vector<Frame> &fr) { std::string s; for (auto &f : fr) { if (!s.empty()) s += ' '; s += frameStr(f); } return s.empty() ? "-" : s; }

struct DlEv; static void devlistCompare(uint64_t oa, uint64_t ob);
static void probeCompare(const std::string &kind, uint64_t oa, uint64_t ob);
static void beforePoll() { for (int d = 0; d < nDev && d < 16; d++) claimOnBefore[d] = N->claimTimerOn(d); }
static void trackOpen(bool wasOpen) { if (!wasOpen && N->isOpen()) { onOpened(); C.count("opened"); } }

static void exec(const std::string &line) {
  std::vector<std::string> w = split(line);
  if (w.empty()) return;
  if (w[0] == "devlist") {
    // devlist <originA> <originB>: the same device-list scenario from two clock origins
    finishGroup(); C.op("%s", line.c_str());
    uint64_t oa = strtoull(w[1].c_str(), 0, 10), ob = strtoull(w[2].c_str(), 0, 10);
    devlistCompare(oa, ob);
    delete N; N = nullptr; C.out("ok"); return;
  }
  if (w[0] == "probe") {
    // probe <tp|slots|pend> <originA> <originB>: a scenario of another timed machine of the library from two clock origins
    finishGroup(); C.op("%s", line.c_str());
    probeCompare(w[1], strtoull(w[2].c_str(), 0, 10), strtoull(w[3].c_str(), 0, 10));
    delete N; N = nullptr; C.out("ok"); return;
  }
  if (w[0] == "scenario") { finishGroup(); groupId = w.size() > 1 ? w[1] : "?"; C.op("%s", line.c_str()); C.out("ok"); return; }
  if (w[0] == "reset0") {
    // input form: reset0 <fl> <qsize> <mode> <ndev> <origin>
    unsigned qsize = strtoul(w[2].c_str(), 0, 10); mode = atoi(w[3].c_str()); nDev = atoi(w[4].c_str());
    uint64_t origin = strtoull(w[5].c_str(), 0, 10);
    g_now = origin; originNow = origin;
    delete N; N = new Node();
    N->SetDeviceCount(nDev);
    for (int i = 0; i < nDev; i++) N->SetDeviceInformation(1000 + 7 * i, 130 + i, 25, 2000 + i, 4, i);
    N->SetMode((tNMEA2000::tN2kMode)mode, 30);
    N->EnableForward(false);
    N->SetN2kCANSendFrameBufSize(qsize);
    N->ReadResetDeviceInformationChanged();
    base64 = N2kMillis64();
    for (int d = 0; d < 16; d++) od[d] = ODev();
    oOpen = false; backpressure = false; preOpenConfig = false; T0 = 0;
    std::string l = std::string("reset0 ") + FLAVOR; char b[96];
    snprintf(b, sizeof b, " %u %d %llu", (unsigned)N->maxq(), mode, (unsigned long long)g_now); l += b;
    for (int i = 0; i < nDev; i++) { snprintf(b, sizeof b, " %u:%llx", N->src(i), (unsigned long long)N->name(i)); l += b; }
    C.op("%s", l.c_str());
    group.emplace_back(); inRun = true; Run &r = group.back(); r.origin = origin; r.firstLine = C.opline;
    r.ops.push_back("reset0"); r.rel.push_back(0);
    noteRisk(g_now, 1, true);
    emit("ok");
    { // what the property leaves open in the heartbeat frame (priority, bytes 3..7) is read from the encoder and handed to the model
      tN2kMsg hm; SetHeartbeat(hm, 60000, 0); char hb[64]; snprintf(hb, sizeof hb, "hbfmt %u %s", hm.Priority, hex(hm.Data + 3, hm.DataLen > 3 ? hm.DataLen - 3 : 0).c_str());
      C.op("%s", hb); r.ops.push_back(hb); r.rel.push_back(0); emit("ok"); }
    return;
  }
  C.op("%s", line.c_str()); C.count("op_" + w[0]);
  if (!N) { C.out("bad-op"); return; }
  if (inRun) { group.back().ops.push_back(line); group.back().rel.push_back(g_now - originNow); }
  struct BoundaryGuard { bool on; BoundaryGuard(bool o) : on(o) { if (on) noteBoundary(); } ~BoundaryGuard() { if (on) noteBoundary(); } }
    guard(w[0] != "t" && w[0] != "poll" && w[0] != "run" && w[0] != "get" && w[0] != "m64");
  if (w[0] == "t") { g_now += strtoull(w[1].c_str(), 0, 10); if (inRun) group.back().sparse = true; emit("ok"); return; }
  if (w[0] == "acc") { for (char c : w[1]) { N->acceptScript.push_back(c == '1'); if (c != '1') backpressure = true; } emit("ok"); return; }
  if (w[0] == "accdef") { N->acceptDefault = w[1] == "1"; if (!N->acceptDefault) backpressure = true; emit("ok"); return; }
  if (w[0] == "canopen") { N->openOk = w[1] == "1"; emit("ok"); return; }
  if (w[0] == "poll") {
    noteRisk(g_now, 1, false);
    bool wasOpen = N->isOpen(); N->sent.clear(); beforePoll(); N->ParseMessages(); trackOpen(wasOpen);
    oraclePoll(N->sent); emit(framesOut(N->sent)); N->sent.clear(); return;
  }
  if (w[0] == "run") {
    unsigned long n = strtoul(w[1].c_str(), 0, 10); std::string out; char b[32];
    noteRisk(g_now, n, false);
    for (unsigned long k = 0; k < n; k++) {
      bool wasOpen = N->isOpen(); N->sent.clear(); beforePoll(); N->ParseMessages(); trackOpen(wasOpen);
      oraclePoll(N->sent);
      for (auto &f : N->sent) { snprintf(b, sizeof b, "%lu:", k); if (!out.empty()) out += ' '; out += b; out += frameStr(f); }
      N->sent.clear(); g_now++;
    }
    emit(out.empty() ? "-" : out); return;
  }
  if (w[0] == "claim") {
    int d = atoi(w[1].c_str()); if (d < 0 || d >= nDev) { emit("-"); return; }
    noteRisk(g_now, 1, false);
    N->sent.clear(); N->claim(d);
    if (active() && N->isOpen()) od[d].claimFrom = (int64_t)g_now;
    emit(framesOut(N->sent)); N->sent.clear(); return;
  }
  if (w[0] == "hbset") {
    uint32_t iv = (uint32_t)strtoull(w[1].c_str(), 0, 10), off = (uint32_t)strtoull(w[2].c_str(), 0, 10); int d = atoi(w[3].c_str());
    // remember which devices were disabled and are now configured with the interval they had before
    uint32_t before[16]; bool dis[16]; for (int i = 0; i < nDev; i++) { before[i] = N->hbP(i); dis[i] = od[i].P == 0; }
    N->SetHeartbeatIntervalAndOffset(iv, off, d);
    oracleConfig(iv, off, d);
    for (int i = 0; i < nDev; i++) {
      if (dis[i] && od[i].P != 0 && od[i].P == before[i]) od[i].reenabledSame = true;
      // C12_clip observable: the getter reports the configured interval of every enabled device
      if (oOpen && !preOpenConfig && od[i].P != 0 && N->GetHeartbeatInterval(i) != od[i].P)
        C.fail(od[i].keepAllTouched ? "C12:keep-interval-multidevice" : "C12:clip", "after hbset %u %u %d: dev %d interval %u, configured %u", iv, off, d, i, (unsigned)N->GetHeartbeatInterval(i), od[i].P);
      if (oOpen && !preOpenConfig && od[i].P != 0 && N->GetHeartbeatOffset(i) != od[i].O)
        C.fail(od[i].keepAllTouched ? "C12:keep-interval-multidevice" : "C12:clip-offset", "after hbset %u %u %d: dev %d offset %u, configured %u", iv, off, d, i, (unsigned)N->GetHeartbeatOffset(i), od[i].O);
    }
    emit("ok"); return;
  }
  if (w[0] == "hbforce") {
    if (!N->isOpen()) { emit("closed"); return; }
    N->sent.clear(); N->SendHeartbeat(true);
    for (auto &f : N->sent) if (isHb(f)) {
      hbForced++;
      if (!active()) { C.fail("C12:inactive-sends", "mode %d forced %s", mode, frameStr(f).c_str()); continue; }
      int d = devOfSrc(f.id & 0xff); if (d < 0 || backpressure) continue;
      if (f.buf[2] != 0xff) C.fail("C12:forced-sequence", "forced heartbeat of dev %d carries sequence %u", d, f.buf[2]);
      checkPayload(f, d, true);
      if (od[d].P != 0) od[d].G = leastGridAfter(od[d], g_now); else od[d].forcedWhileDisabled = true;
    }
    emit(framesOut(N->sent)); N->sent.clear(); return;
  }
  if (w[0] == "hbdev") {
    if (!N->isOpen()) { emit("closed"); return; }
    int d = atoi(w[1].c_str()); unsigned nq0 = N->queued();
    N->sent.clear(); N->SendHeartbeat(d);
    if (!active() && N->queued() > nq0) { C.fail("C12:inactive-sends", "mode %d: SendHeartbeat(%d) queued a heartbeat frame", mode, d); }
    for (auto &f : N->sent) if (isHb(f) && !active()) C.fail("C12:inactive-sends", "mode %d: SendHeartbeat(%d) sent %s", mode, d, frameStr(f).c_str());
    for (auto &f : N->sent) if (isHb(f) && !backpressure && active()) {
      int dd = devOfSrc(f.id & 0xff); if (dd < 0) continue;
      if (f.buf[2] != 0xff) C.fail("C12:forced-sequence", "requested heartbeat of dev %d carries sequence %u", dd, f.buf[2]);
      checkPayload(f, dd, true);
    }
    emit(framesOut(N->sent)); N->sent.clear(); return;
  }
  if (w[0] == "gfreq") {
    if (!N->isOpen()) { emit("closed"); return; }
    int d = atoi(w[1].c_str()); uint32_t iv = (uint32_t)strtoull(w[2].c_str(), 0, 10); unsigned off = (unsigned)strtoul(w[3].c_str(), 0, 10) & 0xffff; unsigned pairs = (unsigned)strtoul(w[4].c_str(), 0, 10) & 0xff;
    if (d >= nDev) { emit("-"); return; }
    noteRisk(g_now, 1, false);
    unsigned dst = d < 0 ? 255 : N->src(d);
    // reassembled payload: function code 0 (request), PGN, interval (ms, 4 bytes), offset (10 ms, 2 bytes), number of parameter pairs
    unsigned char pl[11] = {0, 0x11, 0xF0, 0x01, (unsigned char)iv, (unsigned char)(iv >> 8), (unsigned char)(iv >> 16), (unsigned char)(iv >> 24), (unsigned char)off, (unsigned char)(off >> 8), (unsigned char)pairs};
    static unsigned fpseq = 0; fpseq = (fpseq + 1) & 7;
    unsigned long id = (3UL << 26) | (0x1EDUL << 16) | ((unsigned long)dst << 8) | 50UL;
    unsigned char f0[8] = {(unsigned char)(fpseq << 5), 11, pl[0], pl[1], pl[2], pl[3], pl[4], pl[5]};
    unsigned char f1[8] = {(unsigned char)((fpseq << 5) | 1), pl[6], pl[7], pl[8], pl[9], pl[10], 0xff, 0xff};
    N->rx(id, 8, f0); N->rx(id, 8, f1);
    N->sent.clear(); beforePoll(); N->ParseMessages();
    // ---- oracle: a request may set 1000..60000 ms (or keep / restore the default 60 s); an interval outside that leaves the heartbeat
    // as it was and never switches it off. The property says nothing about the offset field (unit, limits) nor about parameter
    // pairs: whether such a request is served, and the offset then in force, are learnt from the node.
    bool ivOk = iv == KEEP || iv == RESTORE || (iv >= 1000 && iv <= 60000);
    bool plain = (off == 0xffff || off == 0) && pairs == 0;        // no offset wish, no parameter pairs: must be served when the interval is in limits
    bool mustServe = active() && ivOk && plain && !(iv == KEEP && off == 0xffff);
    bool mayServe = active() && ivOk && !(iv == KEEP && off == 0xffff);
    bool anyServed = false;
    for (int i = 0; i < nDev; i++) {
      if (d >= 0 && i != d) continue;
      if (!oOpen || preOpenConfig) continue;
      ODev &o = od[i];
      uint32_t got = N->GetHeartbeatInterval(i), gotO = N->GetHeartbeatOffset(i);
      uint32_t want = iv == KEEP ? o.P : iv == RESTORE ? 60000u : iv;   // only meaningful when ivOk
      bool same = got == o.P && gotO == o.O;
      bool served = mayServe && got == want && (o.P != 0 || iv != KEEP);
      const char *cls = iv == 0 ? "0" : iv < 1000 ? "below-1000" : (iv > 60000 && iv < RESTORE) ? "above-60000" : "in-range";
      if (!mayServe) {
        if (got != o.P) C.fail(std::string("C12:gf-request-interval:") + cls, "request interval %u offset %u pairs %u to dev %d: heartbeat interval now %u, must stay %u", iv, off, pairs, i, got, o.P);
      } else if (mustServe) {
        if (got != want) C.fail(std::string("C12:gf-request-interval:") + cls, "request interval %u offset %u pairs %u to dev %d: heartbeat interval now %u, must be %u", iv, off, pairs, i, got, want);
      } else if (!(same || got == want)) {
        C.fail(std::string("C12:gf-request-interval:") + cls, "request interval %u offset %u pairs %u to dev %d: heartbeat interval now %u, must be %u or stay %u", iv, off, pairs, i, got, want, o.P);
      }
      if (got != 0 && (got < 1000 || got > 655320)) C.fail("C12:gf-request-interval:range", "dev %d interval %u", i, got);
      if (served && !same) anyServed = true;
      if (mustServe || (served && !same)) anyServed = true;
      // continue from the state actually in force (report once); a changed interval/offset restarts on the new grid
      if (!same) { bool was = o.P != 0; o.P = got; o.O = gotO; if (got) o.G = leastGridAfter(o, g_now); (void)was; o.forcedWhileDisabled = false; }
    }
    bool accepted = mustServe || anyServed;
    std::vector<Frame> rest;
    for (auto &f : N->sent) {
      if (!isHb(f)) continue;
      int dd = devOfSrc(f.id & 0xff);
      if (f.buf[2] == 0xff && active() && dd >= 0 && (d < 0 || dd == d)) {   // the answer of a served request: a forced heartbeat
        hbForced++;
        if (!mayServe) C.fail("C12:gf-request-answered", "request interval %u offset %u pairs %u was out of limits but answered with a heartbeat", iv, off, pairs);
        checkPayload(f, dd, true);
      } else rest.push_back(f);
    }
    std::vector<Frame> hbOnly; for (auto &f : N->sent) if (isHb(f)) hbOnly.push_back(f);
    oraclePoll(rest); C.count(accepted ? "gf_requests_served" : "gf_requests_refused");
    emit(framesOut(hbOnly)); N->sent.clear(); return;
  }
  if (w[0] == "get") {
    std::string s = std::string("open=") + (N->isOpen() ? "1" : "0") + " chg=" + (N->ReadResetDeviceInformationChanged() ? "1" : "0"); char b[96];
    for (int i = 0; i < nDev; i++) {
      if (N->hbDis(i)) snprintf(b, sizeof b, " %u/%u/dis/%u", (unsigned)N->hbP(i), (unsigned)N->hbO(i), N->hbSeq(i));
      else snprintf(b, sizeof b, " %u/%u/%llu/%u", (unsigned)N->hbP(i), (unsigned)N->hbO(i), (unsigned long long)(N->hbNext(i) - SS::so()), N->hbSeq(i));
      s += b;
    }
    emit(s); return;
  }
  if (w[0] == "m64") {
    // C13_roll_counter: the 64-bit clock advances exactly like the virtual clock (sampled at least once per 2^32 ms)
    uint64_t v = N2kMillis64() - base64;
    if (v != g_now - originNow) C.fail(std::string("C13:roll-counter:") + FLAVOR, "N2kMillis64 advanced %llu, clock advanced %llu", (unsigned long long)v, (unsigned long long)(g_now - originNow));
    char b[32]; snprintf(b, sizeof b, "%llu", (unsigned long long)v); emit(b); return;
  }
  emit("bad-op");
}


// ------------------------------------------------------------------------------------------------ device-list probe (C13)
// Two foreign devices (sources 50, 51) claim their addresses and keep talking (a frame every 20 ms) but never answer. The device
// list asks each of them for product information, then configuration information, then the PGN lists (4 attempts each, 1 s apart).
// Trace = (relative ms, requested PGN, destination) of every ISO request the node sends in 16 s. Identical for every clock origin.
struct DlEv { uint32_t t; unsigned long pgn; unsigned dst; };
static std::vector<DlEv> devlistProbe(uint64_t origin) {
  g_now = origin;
  Node *n = new Node(); n->SetDeviceCount(1); n->SetDeviceInformation(4711, 130, 25, 2046, 4, 0);
  n->SetMode(tNMEA2000::N2km_ListenAndNode, 30); n->EnableForward(false); n->SetN2kCANSendFrameBufSize(40);
  tN2kDeviceList *dl = new tN2kDeviceList(n);
  openAndSettle(*n, 700);
  const unsigned char name50[8] = {0x39, 0x30, 0x20, 0x11, 0x00, 0x82, 0x32, 0xc0}, name51[8] = {0x3a, 0x30, 0x20, 0x11, 0x00, 0x82, 0x32, 0xc0};
  n->rx((6UL << 26) | (0xEEUL << 16) | (0xffUL << 8) | 50UL, 8, name50);
  n->rx((6UL << 26) | (0xEEUL << 16) | (0xffUL << 8) | 51UL, 8, name51);
  const unsigned char hb[8] = {0x70, 0x17, 0x00, 0xff, 0xff, 0xff, 0xff, 0xff};
  std::vector<DlEv> tr;
  uint64_t t0 = g_now;
  for (int i = 0; i < 16000; i++) {
    if (i % 20 == 7) n->rx((7UL << 26) | (0x1F011UL << 8) | (50UL + (i / 20) % 2), 8, hb);
    n->sent.clear(); n->ParseMessages();
    for (auto &f : n->sent) if (((f.id >> 16) & 0xff) == 0xEA && f.len >= 3)
      tr.push_back({(uint32_t)(g_now - t0), (unsigned long)f.buf[0] | ((unsigned long)f.buf[1] << 8) | ((unsigned long)f.buf[2] << 16), (unsigned)((f.id >> 8) & 0xff)});
    g_now++;
  }
  n->sent.clear();
  delete dl; delete n;
  return tr;
}
static const char *dlKind(unsigned long pgn) { return pgn == 126996UL ? "product-info" : pgn == 126998UL ? "config-info" : pgn == 126464UL ? "pgn-list" : pgn == 60928UL ? "name" : "other"; }

static void devlistCompare(uint64_t oa, uint64_t ob) {
  std::vector<DlEv> a = devlistProbe(oa), b = devlistProbe(ob);
  C.count("devlist_probes", 2); C.count("devlist_requests_seen", (long)a.size());
  bool kinds[3] = {false, false, false};
  for (auto &e : a) { if (e.pgn == 126996UL) kinds[0] = true; if (e.pgn == 126998UL) kinds[1] = true; if (e.pgn == 126464UL) kinds[2] = true; }
  size_t n = a.size() < b.size() ? a.size() : b.size(), i = 0;
  while (i < n && a[i].t == b[i].t && a[i].pgn == b[i].pgn && a[i].dst == b[i].dst) i++;
  if (i < a.size() || i < b.size()) {
    const DlEv *x = i < a.size() ? &a[i] : &b[i];
    char ea[64] = "<none>", eb[64] = "<none>";
    if (i < a.size()) snprintf(ea, sizeof ea, "+%u ms %s to %u", a[i].t, dlKind(a[i].pgn), a[i].dst);
    if (i < b.size()) snprintf(eb, sizeof eb, "+%u ms %s to %u", b[i].t, dlKind(b[i].pgn), b[i].dst);
    C.fail(std::string("C13:origin-dependence:") + FLAVOR + ":devlist:" + dlKind(x->pgn), "device-list requests from origin %llu: %zu, from origin %llu: %zu; first difference at request %zu: %s / %s",
           (unsigned long long)oa, a.size(), (unsigned long long)ob, b.size(), i, ea, eb);
  } else if (!(kinds[0] && kinds[1] && kinds[2])) C.fail("harness:devlist-kinds", "probe did not exercise all three request kinds (%d %d %d)", kinds[0], kinds[1], kinds[2]);
  C.cases++;
}


// ------------------------------------------------------------------------------------------------ timed-machine probes (C13)
// Whole scenarios of the other timed machines of the library, run on the real node from two clock origins with a poll every
// millisecond; the traces (relative ms, event) must be equal (32-bit build: within the 1 ms sentinel slack of tN2kScheduler).
//   tp    : ISO-TP sender (RTS/CTS/EndAck, CTS and EndAck time-outs 50/100 ms, BAM with 50 ms pacing) and receiver (RTS->CTS/EndAck, BAM)
//   slots : reassembly slots: 5 stalled fast-packet senders, later senders recycle the slot older than 100 ms
//   pend  : pending product / configuration information: answers to ISO requests retried every 187+8a / 187+10a ms while the driver is blocked
struct PEv { uint32_t t; std::string what; };
static std::vector<PEv> *g_ptrace = nullptr; static uint64_t g_pt0 = 0;
static void probeHandler(const tN2kMsg &m) { if (g_ptrace) { char b[64]; snprintf(b, sizeof b, "deliver:%lu:%u:%d", m.PGN, m.Source, m.DataLen); g_ptrace->push_back({(uint32_t)(g_now - g_pt0), b}); } }
static unsigned long pid(unsigned prio, unsigned long pgn, unsigned src, unsigned dst) { return ((unsigned long)prio << 26) | (pgn << 8) | (((pgn >> 8) & 0xff) < 240 ? ((unsigned long)dst << 8) : 0UL) | src; }
static std::string frameKind(const Frame &f) {
  unsigned long pf = (f.id >> 16) & 0xff, ps = (f.id >> 8) & 0xff, dp = (f.id >> 24) & 1;
  unsigned long pgn = pf < 240 ? (dp << 16) | (pf << 8) : (dp << 16) | (pf << 8) | ps;
  char b[64];
  if (pgn == 60416UL) { unsigned c = f.buf[0]; snprintf(b, sizeof b, "%s>%lu", c == 16 ? "RTS" : c == 17 ? "CTS" : c == 19 ? "EndAck" : c == 32 ? "BAM" : c == 255 ? "Abort" : "CM?", ps); return b; }
  if (pgn == 60160UL) { snprintf(b, sizeof b, "DT%u>%lu", f.buf[0], ps); return b; }
  snprintf(b, sizeof b, "pgn%lu#%u", pgn, f.buf[0]); return b;
}
struct ProbeNode { Node *n; std::vector<PEv> tr; };
static void probeStep(ProbeNode &P) {
  P.n->sent.clear(); P.n->ParseMessages();
  for (auto &f : P.n->sent) P.tr.push_back({(uint32_t)(g_now - g_pt0), frameKind(f)});
  P.n->sent.clear();
}
static void probeNote(ProbeNode &P, const char *what, int v) { char b[48]; snprintf(b, sizeof b, "%s=%d", what, v); P.tr.push_back({(uint32_t)(g_now - g_pt0), b}); for (auto &f : P.n->sent) P.tr.push_back({(uint32_t)(g_now - g_pt0), frameKind(f)}); P.n->sent.clear(); }
static Node *probeMake(uint64_t origin, unsigned qsize) {
  g_now = origin;
  Node *n = new Node(); n->SetDeviceCount(1); n->SetDeviceInformation(4711, 130, 25, 2046, 4, 0);
  n->SetProductInformation("00000123", 100, "Verif probe node", "1.0.0.0 (2026-09-30)", "1.0.0.0 (2026-09-30)");
  n->SetConfigurationInformation("Manufacturer information", "Installation description one", "Installation description two");
  n->SetMode(tNMEA2000::N2km_ListenAndNode, 30); n->EnableForward(false); n->SetN2kCANSendFrameBufSize(qsize);
  n->SetHeartbeatIntervalAndOffset(0);   // (overwritten by Open(); the heartbeat runs at 60 s and stays outside the probe)
  n->SetMsgHandler(probeHandler);
  openAndSettle(*n, 700);
  n->sent.clear();
  return n;
}
static void tpMsg(tN2kMsg &m, unsigned long pgn, unsigned dst, int len) { m.Init(6, pgn, 30, dst); for (int i = 0; i < len; i++) m.AddByte((unsigned char)(i * 7 + 1)); m.SetIsTPMessage(true); }
static std::vector<PEv> probeTP(uint64_t origin) {
  ProbeNode P; P.n = probeMake(origin, 40); g_ptrace = &P.tr; g_pt0 = g_now;
  const unsigned long TPGN = 126720UL;   // addressed (PDU1) proprietary fast-packet PGN: no library-side handling of the payload
  auto cm = [&](unsigned src, unsigned dst, unsigned c, unsigned b1, unsigned b2, unsigned b3, unsigned long pgn) { unsigned char d[8] = {(unsigned char)c, (unsigned char)b1, (unsigned char)b2, (unsigned char)b3, 0xff, (unsigned char)pgn, (unsigned char)(pgn >> 8), (unsigned char)(pgn >> 16)}; P.n->rx(pid(7, 60416UL, src, dst), 8, d); };
  auto dt = [&](unsigned src, unsigned dst, unsigned seq) { unsigned char d[8] = {(unsigned char)seq, 1, 2, 3, 4, 5, 6, 7}; P.n->rx(pid(7, 60160UL, src, dst), 8, d); };
  for (int t = 0; t < 2700; t++) {
    tN2kMsg m;
    switch (t) {
      case 100: tpMsg(m, TPGN, 50, 30); probeNote(P, "sendA", P.n->SendMsg(m, 0)); break;       // RTS, answered
      case 120: cm(50, 30, 17, 2, 1, 0xff, TPGN); break;                                          // CTS 2 packets from 1
      case 150: cm(50, 30, 17, 3, 3, 0xff, TPGN); break;                                          // CTS 3 packets from 3
      case 200: cm(50, 30, 19, 30, 0, 5, TPGN); break;                                            // EndOfMsgAck
      case 400: tpMsg(m, TPGN, 50, 30); probeNote(P, "sendB", P.n->SendMsg(m, 0)); break;       // RTS, never answered: given up after 50 ms
      case 430: tpMsg(m, TPGN, 50, 30); probeNote(P, "sendB2", P.n->SendMsg(m, 0)); break;      // refused: transfer in progress
      case 520: tpMsg(m, TPGN, 50, 30); probeNote(P, "sendC", P.n->SendMsg(m, 0)); break;       // accepted again
      case 540: cm(50, 30, 17, 2, 1, 0xff, TPGN); break;                                          // CTS, then silence: given up 100 ms after the CTS
      case 620: tpMsg(m, TPGN, 50, 30); probeNote(P, "sendC2", P.n->SendMsg(m, 0)); break;      // still in progress
      case 700: tpMsg(m, TPGN, 50, 30); probeNote(P, "sendD", P.n->SendMsg(m, 0)); break;       // accepted
      case 720: cm(50, 30, 255, 1, 0xff, 0xff, TPGN); break;                                      // Abort from the peer
      case 1000: tpMsg(m, 126998UL, 255, 23); probeNote(P, "sendBAM", P.n->SendMsg(m, 0)); break;   // BAM + 4 packets, 50 ms apart
      case 1500: cm(51, 30, 16, 20, 0, 3, TPGN); break;                                           // RTS to us: CTS
      case 1510: dt(51, 30, 1); break; case 1520: dt(51, 30, 2); break; case 1530: dt(51, 30, 3); break;   // EndOfMsgAck + delivery
      case 1700: cm(52, 255, 32, 20, 0, 3, TPGN); break;                                          // BAM from 52
      case 1760: dt(52, 255, 1); break; case 1820: dt(52, 255, 2); break; case 1880: dt(52, 255, 3); break;
      case 1900: cm(53, 30, 16, 20, 0, 3, TPGN); break;                                           // RTS, then a wrong packet number: Abort
      case 1950: dt(53, 30, 2); break;
      default: break;
    }
    probeStep(P); g_now++;
  }
  g_ptrace = nullptr; delete P.n; return P.tr;
}
static std::vector<PEv> probeSlots(uint64_t origin) {
  ProbeNode P; P.n = probeMake(origin, 40); g_ptrace = &P.tr; g_pt0 = g_now;
  auto fp = [&](unsigned src, unsigned k, unsigned seq) { unsigned char d[8] = {(unsigned char)((seq << 5) | k), 43, 1, 2, 3, 4, 5, 6}; if (k) d[1] = 9; P.n->rx(pid(3, 129029UL, src, 255), 8, d); };
  for (int t = 0; t < 900; t++) {
    // five senders start a 43 byte fast packet (7 frames) and stall: every slot is taken
    if (t >= 100 && t <= 180 && (t - 100) % 20 == 0) fp(40 + (t - 100) / 20, 0, 1);
    if (t == 190) fp(45, 0, 1);                  // 6th sender 90 ms after the oldest: nothing is older than 100 ms, dropped
    if (t == 225) fp(46, 0, 1);                  // 125 ms after sender 40: its slot is recycled
    if (t == 226) fp(47, 0, 1);                  // sender 41 started 106 ms ago: recycled
    if (t == 228) fp(48, 0, 1);                  // sender 42 started 88 ms ago: dropped
    if (t >= 240 && t < 246) { fp(46, t - 239, 1); fp(40, t - 239, 1); fp(43, t - 239, 1); }   // 46 and 43 complete, 40 lost its slot
    if (t == 400) for (unsigned s = 60; s < 65; s++) fp(s, 0, 2);     // fill all slots again at one instant
    if (t == 501) fp(70, 0, 2);                  // 101 ms later: the oldest (first in scan order) is recycled
    if (t >= 510 && t < 516) { fp(70, t - 509, 2); fp(60, t - 509, 2); fp(61, t - 509, 2); }
    probeStep(P); g_now++;
  }
  g_ptrace = nullptr; delete P.n; return P.tr;
}
static std::vector<PEv> probePend(uint64_t origin) {
  ProbeNode P; P.n = probeMake(origin, 4); g_ptrace = &P.tr; g_pt0 = g_now;
  auto isoRq = [&](unsigned src, unsigned dst, unsigned long pgn) { unsigned char d[3] = {(unsigned char)pgn, (unsigned char)(pgn >> 8), (unsigned char)(pgn >> 16)}; P.n->rx(pid(6, 59904UL, src, dst), 3, d); };
  for (int t = 0; t < 3200; t++) {
    if (t == 90) P.n->acceptDefault = false;     // the CAN driver stops taking frames: the 4-frame send queue fills, SendMsg fails
    if (t == 100) isoRq(50, 30, 126996UL);       // product information (20 frames): pending, retried every 187+8*30 = 427 ms
    if (t == 150) isoRq(50, 30, 126998UL);       // configuration information: pending, retried every 187+10*30 = 487 ms
    if (t == 1500) P.n->acceptDefault = true;    // driver works again: the next retries go out
    if (t == 2600) isoRq(51, 255, 126996UL);     // broadcast request, answered at once
    probeStep(P); g_now++;
  }
  g_ptrace = nullptr; delete P.n; return P.tr;
}
static void probeCompare(const std::string &kind, uint64_t oa, uint64_t ob) {
  std::vector<PEv> a, b;
  if (kind == "tp") { a = probeTP(oa); b = probeTP(ob); } else if (kind == "slots") { a = probeSlots(oa); b = probeSlots(ob); } else { a = probePend(oa); b = probePend(ob); }
  C.count("probe_" + kind + "_runs", 2); C.count("probe_" + kind + "_events", (long)a.size());
  for (auto &e : a) { std::string w = e.what.substr(0, e.what.find_first_of(">#=:")); C.count("probe_" + kind + "_ev_" + w); }
  static std::set<std::string> sampled;
  if (!sampled.count(kind)) { sampled.insert(kind); std::string t = kind + " probe, reference trace:"; for (size_t i = 0; i < a.size() && i < 60; i++) { t += " +" + std::to_string(a[i].t) + ":" + a[i].what; } FILE *f = fopen((C.outdir + "/probe_" + kind + ".txt").c_str(), "w"); if (f) { for (auto &e : a) fprintf(f, "+%u %s\n", e.t, e.what.c_str()); fclose(f); } C.sample(t.substr(0, 900)); }
  uint32_t tol = T32B ? 1 : 0;
  size_t n = a.size() < b.size() ? a.size() : b.size(), i = 0;
  while (i < n && a[i].what == b[i].what && (a[i].t > b[i].t ? a[i].t - b[i].t : b[i].t - a[i].t) <= tol) i++;
  if (i < a.size() || i < b.size()) {
    std::string ea = i < a.size() ? "+" + std::to_string(a[i].t) + " " + a[i].what : "<none>", eb = i < b.size() ? "+" + std::to_string(b[i].t) + " " + b[i].what : "<none>";
    std::string w = (i < a.size() ? a[i].what : b[i].what); w = w.substr(0, w.find_first_of(">#=:"));
    C.fail(std::string("C13:origin-dependence:") + FLAVOR + ":" + kind + ":" + w, "%s probe from origin %llu: %zu events, from origin %llu: %zu; first difference at event %zu: %s / %s",
           kind.c_str(), (unsigned long long)oa, a.size(), (unsigned long long)ob, b.size(), i, ea.c_str(), eb.c_str());
  }
  // the probe must really exercise its machine (harness self-check on the reference run)
  auto has = [&](const char *p) { for (auto &e : a) if (e.what.compare(0, strlen(p), p) == 0) return true; return false; };
  if (kind == "tp" && !(has("RTS") && has("CTS") && has("EndAck") && has("BAM") && has("DT") && has("Abort") && has("deliver:126720") && has("sendB2=0") && has("sendC=1") && has("sendD=1")))
    C.fail("harness:probe-tp-coverage", "TP probe did not show RTS/CTS/EndAck/BAM/DT/Abort/deliveries/time-outs");
  if (kind == "slots") { int del = 0; for (auto &e : a) if (e.what.compare(0, 8, "deliver:") == 0) del++; if (del < 4 || !has("deliver:129029:46") || !has("deliver:129029:70")) C.fail("harness:probe-slots-coverage", "slot probe delivered %d messages, expected 46 and 43 after recycling the slots of 40 and 41, 70 after recycling one of 60..64 (which one is the implementation's tie-break) and the untouched ones of 60, 61", del); }
  if (kind == "pend") { int p1 = 0, p2 = 0; for (auto &e : a) { if (e.what.compare(0, 10, "pgn126996#") == 0) p1++; if (e.what.compare(0, 10, "pgn126998#") == 0) p2++; } if (p1 < 40 || p2 < 10) C.fail("harness:probe-pend-coverage", "pending-information probe saw %d / %d frames", p1, p2); }
  C.cases++;
}

// ------------------------------------------------------------------------------------------------ generators
static std::vector<std::string> script;            // ops of the current scenario after reset0 (recorded during the first run)
static void doOp(const std::string &l) { script.push_back(l); exec(l); }
// the settle delay between CANOpen() and the first frame is not fixed by the properties: keep polling until the node is open
static void ensureOpen() { for (int i = 0; i < 30 && N && !N->isOpen(); i++) doOp("run 100"); }


static uint32_t genInterval(Rng &R) {
  static const uint32_t v[] = {1000, 1000, 1000, 1001, 1009, 2500, 5000, 60000, 65530, 65535, 65536, 65540, 100000, 300000, 655319, 655320, 655321, 700000, 999, 1, 0, KEEP, RESTORE, 0xfffffffdu, 0x80000000u};
  if (R.chance(1, 4)) return (uint32_t)R.range(1000, 3000);
  if (R.chance(1, 8)) return (uint32_t)R.range(0, 700000);
  return v[R.below(sizeof v / sizeof *v)];
}
static uint32_t genOffset(Rng &R, uint32_t iv) {
  static const uint32_t v[] = {0, 0, 10, 500, 999, 1000, 10000, 65535, 70000, KEEP, KEEP};
  uint32_t o = R.chance(1, 3) ? (uint32_t)R.range(0, 20000) : v[R.below(sizeof v / sizeof *v)];
  if (iv == KEEP && o == 0xffff) o = 0xfffe;
  return o;
}
static void genHbset(Rng &R, int devs, bool fast) {
  uint32_t iv = fast && R.chance(2, 3) ? (uint32_t)R.range(1000, 1200) : genInterval(R); uint32_t off = genOffset(R, iv);
  if (fast && off != KEEP && off > 3000) off %= 3000;
  int d = R.chance(1, 2) ? -1 : (R.chance(1, 12) ? devs + (int)R.below(2) : (int)R.below(devs));
  char b[96]; snprintf(b, sizeof b, "hbset %u %u %d", iv, off, d); doOp(b);
}

static void genGfreq(Rng &R, int devs) {
  static const uint32_t v[] = {0, 0, 1, 500, 999, 1000, 1000, 1001, 5000, 60000, 60000, 60001, 100000, 655320, RESTORE, KEEP, 0xfffffffdu};
  uint32_t iv = R.chance(1, 4) ? (uint32_t)R.range(1000, 60000) : (R.chance(1, 8) ? (uint32_t)R.range(0, 70000) : v[R.below(sizeof v / sizeof *v)]);
  unsigned off = R.chance(1, 2) ? 0xffff : (R.chance(1, 3) ? 0 : (R.chance(1, 8) ? (unsigned)R.range(6001, 65534) : (unsigned)R.range(1, 6000)));
  if (iv == KEEP && off == 0xffff && R.chance(1, 2)) off = 0;
  unsigned pairs = R.chance(1, 15) ? (unsigned)R.range(1, 3) : 0;
  int d = R.chance(1, 4) ? -1 : (int)R.below(devs);
  char b[96]; snprintf(b, sizeof b, "gfreq %d %u %u %u", d, iv, off, pairs); doOp(b);
}

// sparse, jittered polling with long gaps (C12 timing oracle + C13 comparison)
static void genSparse(Rng &R, int devs, bool fast) {
  doOp("run " + std::to_string(R.range(205, 320))); ensureOpen();
  if (fast) { char b[96]; snprintf(b, sizeof b, "hbset %u %u -1", (unsigned)R.range(1000, 1100), (unsigned)R.range(0, 999)); doOp(b); }   // > 253 heartbeats per device
  if (R.chance(4, 5)) { int n = (int)R.range(1, 3); for (int i = 0; i < n; i++) genHbset(R, devs, fast); }
  if (R.chance(1, 3)) doOp("get");
  int nops = fast ? (int)R.range(560, 700) : (int)R.range(30, 120);
  uint32_t scale = fast ? 1000 : (uint32_t)R.pick(std::vector<uint32_t>{1000, 5000, 60000, 60000, 200000});
  for (int i = 0; i < nops; i++) {
    unsigned k = (unsigned)R.below(100);
    uint64_t dt;
    if (k < 45) dt = R.range(scale * 9 / 10, scale * 11 / 10);   // about one period
    else if (k < 60) dt = R.range(1, 50);
    else if (k < 70) dt = R.range(scale / 4, scale / 2);
    else if (k < 78) dt = R.range(2 * scale, 5 * scale);        // long gap: grid points are skipped
    else if (k < 83 && oOpen && od[0].P) dt = od[0].G >= g_now ? od[0].G - g_now + (uint64_t)R.range(0, 2) : 1;   // land on / just after a grid point
    else if (k < 86 && oOpen && od[0].P && od[0].G > g_now + 1) dt = od[0].G - g_now - 1;                          // just before a grid point
    else if (k < 90) { genHbset(R, devs, fast); continue; }
    else if (k < 91) { doOp("hbforce"); continue; }
    else if (k < 92) { doOp("hbdev " + std::to_string(R.below(devs + 1))); continue; }
    else if (k < 94) { genGfreq(R, devs); continue; }
    else if (k < 96) { doOp("claim " + std::to_string(R.below(devs))); continue; }
    else if (k < 98) { doOp("get"); continue; }
    else { doOp("m64"); continue; }
    doOp("t " + std::to_string(dt)); doOp("poll");
  }
  doOp("get"); doOp("m64");
}

// directed (identical for every seed): (1) a SetHeartbeatIntervalAndOffset / group-function request that resolves to the values
// already in force arrives between a heartbeat's grid point and the next ParseMessages(): the due heartbeat must still be sent
// ("late polling delays but does not shift" - nor skip); (2) a heartbeat that falls due inside an address-claim window is sent when
// the window is over, not dropped
static void genSameValue() {
  doOp("run 300"); ensureOpen();
  doOp("hbset 5000 100 -1"); doOp("t 5300"); doOp("poll");
  auto pastGrid = [&]() { uint64_t dt = od[0].G + 3 > g_now ? od[0].G + 3 - g_now : 1; doOp("t " + std::to_string(dt)); };
  pastGrid(); doOp("hbset 5000 100 -1"); doOp("poll");                       // same interval and offset
  pastGrid(); doOp("hbset 4294967295 4294967295 -1"); doOp("poll");          // keep / keep
  pastGrid(); doOp("hbset 4294967295 100 0"); doOp("poll");                  // keep interval, same offset, one device
  pastGrid(); doOp("hbset 5000 4294967295 1"); doOp("poll");                 // same interval, keep offset
  pastGrid(); doOp("gfreq 0 5000 65535 0");                                  // request for the current interval (poll included)
  pastGrid(); doOp("gfreq -1 4294967295 0 0");                               // request "no change" to all devices
  doOp("get");
  { uint64_t dt = od[0].G > g_now + 100 ? od[0].G - g_now - 100 : 1; doOp("t " + std::to_string(dt)); }
  doOp("claim 0"); doOp("run 2600");                                         // due 100 ms into the claim window: sent when it ends
  doOp("hbset 60000 100 -1"); doOp("t 59000"); doOp("poll"); doOp("t 2000"); doOp("poll");
  pastGrid(); doOp("hbset 4294967294 4294967295 -1"); doOp("poll");          // restore default = the interval in force
  // (3) switched off (interval 0), then "keep interval" with a new offset - by the API and by a request over the bus: it stays off
  doOp("hbset 0 0 -1"); doOp("t 2000"); doOp("poll");
  doOp("hbset 4294967295 700 -1"); doOp("get"); doOp("t 3000"); doOp("poll"); doOp("t 1500"); doOp("poll");
  doOp("hbset 0 0 -1"); doOp("gfreq 0 4294967295 70 0"); doOp("get"); doOp("t 3000"); doOp("poll"); doOp("t 1500"); doOp("poll");
  doOp("get"); doOp("m64");
}

// dense polling (every ms) with configuration changes in between; also used with driver back-pressure
static void genDense(Rng &R, int devs, bool bp) {
  if (R.chance(1, 4)) doOp("canopen 0");
  doOp("run " + std::to_string(R.range(1, 400)));
  doOp("canopen 1");
  doOp("run " + std::to_string(R.range(1250, 1600))); ensureOpen();
  int segs = (int)R.range(3, 8);
  for (int i = 0; i < segs; i++) {
    unsigned k = (unsigned)R.below(100);
    if (k < 40) genHbset(R, devs, true);
    else if (k < 50 && !bp) genGfreq(R, devs);
    else if (k < 60) doOp("hbforce");
    else if (k < 70) doOp("claim " + std::to_string(R.below(devs)));
    else if (k < 75) doOp("hbdev " + std::to_string(R.below(devs)));
    else if (k < 85 && bp) { std::string bits; int n = (int)R.range(1, 10); for (int j = 0; j < n; j++) bits += R.chance(1, 2) ? '1' : '0'; doOp("acc " + bits); }
    else doOp("get");
    doOp("run " + std::to_string(R.range(300, 2500)));
  }
  doOp("get"); doOp("m64");
}

static long scenarioNo = 0;
static void scenario(Rng &R, int kind) {
  script.clear();
  int devs = R.chance(1, 3) ? 1 : (int)R.range(1, 9);
  int md = R.chance(1, 8) ? (int)R.pick(std::vector<int>{0, 3, 4}) : (R.chance(1, 2) ? 1 : 2);
  unsigned qsize = kind == 2 ? (unsigned)R.range(2, 6) : 40;
  if (kind == 3) { devs = 2; md = 1; }
  char b[160];
  snprintf(b, sizeof b, "scenario %ld", ++scenarioNo); exec(b);
  // first run: origin 0 (or small), the script is generated adaptively while it executes
  uint64_t o0 = R.chance(1, 2) ? 0 : R.below(100000);
  if (kind == 3) o0 = 0;
  snprintf(b, sizeof b, "reset0 %s %u %d %d %llu", FLAVOR, qsize, md, devs, (unsigned long long)o0); exec(b);
  bool fast = R.chance(1, 3);
  if (kind == 3) genSameValue(); else if (kind == 0) genSparse(R, devs, fast); else genDense(R, devs, kind == 2);
  uint64_t len = g_now - o0 + 1;
  // further origins: 2^31 +- k, 2^32 - k for k across the scenario length; sentinel-directed origins for the dense scenarios
  std::vector<uint64_t> origins;
  if (kind == 3) { origins.push_back(0x100000000ULL - 30000); origins.push_back(0x80000000ULL - 40000); }
  else {
    origins.push_back(0x100000000ULL - 1 - R.below(len < 0xFFFFFFFFULL ? len : 0xFFFFFFFFULL));
    origins.push_back(R.chance(1, 2) ? 0x80000000ULL - R.below(len < 0x7FFFFFFFULL ? len : 0x7FFFFFFFULL) : 0x80000000ULL + R.below(5000));
    if (kind != 0) origins.push_back(R.pick(std::vector<uint64_t>{0xFFFFFFFFULL, 0xFFFFFFFFULL - 200, 0xFFFFFFFFULL - 450, 0xFFFFFFFFULL - 1000, 0xFFFFFFFFULL - 1200, 0xFFFFFFFEULL, 0x100000000ULL}));
    else if (R.chance(1, 2)) origins.push_back(0x100000000ULL - 1 - R.below(400));
    if (!T32B && R.chance(1, 2)) origins.push_back((1ULL << 40) + R.below(1000));
  }
  std::vector<std::string> sc = script;
  for (uint64_t o : origins) {
    snprintf(b, sizeof b, "reset0 %s %u %d %d %llu", FLAVOR, qsize, md, devs, (unsigned long long)o); exec(b);
    for (auto &l : sc) exec(l);
  }
  finishGroup();
}

int main(int argc, char **argv) {
  C.init(argc, argv);
  C.rule = "case = one scenario script run from 3-5 clock origins; non-trivial = several origins and (sequence wrapped past 252, or a poll arrived late after its grid point, or an interval above 65535 ms was on the wire); distinct = hash of the script";
  if (!C.replay.empty()) {
    for (auto &l : readLines(C.replay)) {
      std::vector<std::string> w = split(l);
      if (w[0] == "reset0" && w.size() >= 5 && (w.size() == 5 || w[5].find(':') != std::string::npos)) {
        int devs = (int)w.size() - 5; char b[160]; snprintf(b, sizeof b, "reset0 %s %s %s %d %s", FLAVOR, w[2].c_str(), w[3].c_str(), devs, w[4].c_str()); exec(b);
      } else if (w[0] == "hbfmt") { continue; }   // regenerated after reset0
      else exec(l);
    }
    finishGroup(); C.finish(); return 0;
  }
  Rng R(C.seed * 0x9E3779B97F4A7C15ULL ^ 0xC12C13ULL);
  // directed: the defects seen on the pinned tree, in the smallest form
  {
    exec("scenario d1"); char b[160];
    for (uint64_t o : {0ULL, 0xFFFFFFFFULL - 30000ULL}) {
      snprintf(b, sizeof b, "reset0 %s 40 1 2 %llu", FLAVOR, (unsigned long long)o); exec(b);
      for (const char *l : {"run 260", "hbset 100000 0 -1", "t 100000", "poll", "hbset 5000 100 1", "get", "hbset 4294967295 500 -1", "get", "t 5000", "poll", "t 5000", "poll",
                            "hbset 0 0 -1", "t 200000", "poll", "hbset 100000 500 0", "t 100000", "poll", "hbset 0 0 0", "hbforce", "t 100000", "poll", "t 100000", "poll", "get", "m64"}) { exec(l); if (!strcmp(l, "run 260")) for (int i = 0; i < 30 && !N->isOpen(); i++) exec("run 100"); }
    }
    finishGroup();
  }
  // directed: values already in force set again between a grid point and the next poll; heartbeat due inside a claim window
  scenario(R, 3);
  // directed: group-function requests for PGN 126993 over the bus, every interval class
  {
    exec("scenario d2"); char b[160];
    for (uint64_t o : {0ULL, 0xFFFFFFFFULL - 20000ULL}) {
      snprintf(b, sizeof b, "reset0 %s 40 2 2 %llu", FLAVOR, (unsigned long long)o); exec(b);
      for (const char *l : {"run 460", "gfreq 0 5000 65535 0", "t 5000", "poll", "gfreq 0 0 65535 0", "t 5000", "poll", "t 5000", "poll", "gfreq -1 999 0 0", "gfreq 1 1000 100 0", "t 1000", "poll",
                            "gfreq 1 60001 65535 0", "gfreq 1 60000 65535 0", "gfreq 0 4294967294 65535 0", "get", "gfreq 0 4294967295 200 0", "gfreq 0 4294967295 65535 0", "gfreq 0 2000 7000 0", "gfreq 0 2000 0 1",
                            "gfreq -1 0 0 0", "t 60000", "poll", "t 60000", "poll", "get"}) { exec(l); if (!strcmp(l, "run 460")) for (int i = 0; i < 30 && !N->isOpen(); i++) exec("run 100"); }
    }
    finishGroup();
  }
  // the device list's request pacing (product information, configuration information, PGN lists) from origin 1000 and from
  // origins 2^31 +- k, 2^32 - k (k across the 16.7 s of the probe)
  {
    std::vector<uint64_t> os = {0x80000000ULL + 1000, 0x80000000ULL - 5000, 0x80000000ULL - 500, 0x100000000ULL - 8000, 0x100000000ULL - 500, 0x100000000ULL - 20000};
    int extra = C.thorough ? 12 : 3;
    for (int i = 0; i < extra; i++) os.push_back(i % 3 == 0 ? 0x80000000ULL - R.below(17000) : i % 3 == 1 ? 0x80000000ULL + R.below(17000) : 0x100000000ULL - 1 - R.below(17000));
    if (!T32B) { os.push_back(0x100000000ULL + 12345); os.push_back((1ULL << 40) + R.below(100000)); }
    for (uint64_t o : os) exec("devlist 1000 " + std::to_string(o));
  }
  // ISO-TP sessions, reassembly-slot time-outs and pending-information retries from origin 1000 and from origins whose 32-bit clock
  // wraps / passes 2^31 inside the probe (probe lengths 3.4 s / 1.6 s / 3.9 s incl. 700 ms open+claim)
  for (const char *kind : {"tp", "slots", "pend"}) {
    uint64_t len = !strcmp(kind, "slots") ? 1600 : 3900;
    std::vector<uint64_t> os = {0x100000000ULL - 1000, 0x100000000ULL - len + 100, 0x80000000ULL - 1200, 0x80000000ULL + 77};
    int extra = C.thorough ? 10 : 2;
    for (int i = 0; i < extra; i++) os.push_back(i % 2 == 0 ? 0x100000000ULL - 1 - R.below(len) : 0x80000000ULL - R.below(len));
    if (!T32B) os.push_back((1ULL << 40) + R.below(100000));
    for (uint64_t o : os) exec(std::string("probe ") + kind + " 1000 " + std::to_string(o));
  }
  int nSparse = C.thorough ? 400 : 60, nDense = C.thorough ? 150 : 20, nBp = C.thorough ? 80 : 10;
  for (int i = 0; i < nSparse; i++) scenario(R, 0);
  for (int i = 0; i < nDense; i++) scenario(R, 1);
  for (int i = 0; i < nBp; i++) scenario(R, 2);
  C.count("heartbeats_scheduled", hbScheduled); C.count("heartbeats_forced", hbForced);
  C.sample("sparse scenario: run 2xx; hbset ...; (t <jitter>; poll)* with gaps of 0..5 periods, polls landing on / next to grid points, hbset / hbforce / claim in between");
  C.sample("dense scenario: run <n> (poll every ms) with hbset / claim / hbforce / acc between segments; origins 0, 2^31+-k, 2^32-k, 2^32-1-{0,200,450,1000}");
  C.finish();
  return 0;
}
