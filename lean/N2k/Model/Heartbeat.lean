import N2k.Model.Send
/-!
# Heartbeat (PGN 126993) of `tNMEA2000` and the synchronised scheduler (`src/N2kTimer.h`, `src/NMEA2000.cpp`)

Transcription map
* `tN2kSyncScheduler` (`SyncOffset` static, `NextTime`, `Offset`, `Period`, `Disable`, `IsDisabled`, `IsTime`,
  `UpdateNextTime`, `SetPeriodAndOffset`, `SetSyncOffset`)   → `SyncSched`, `HSt.syncOffset`
* `tNMEA2000::SetHeartbeatIntervalAndOffset`                  → `setOne` (loop body) / `setHeartbeatIntervalAndOffset`
* `SetN2kPGN126993` / `SetHeartbeat`                          → `setN2kPGN126993`
* `tNMEA2000::SendHeartbeat(bool force)`                      → `sendHeartbeatDev` (loop body) / `sendHeartbeat`
* `tNMEA2000::SendHeartbeat(int iDev)`                        → `sendHeartbeatOne`
* the heartbeat defaults at the end of `Open()`               → `openStepH`
* `ParseMessages()` with nothing to receive / nothing pending → `pollH` / `pollTopH`
* `N2kMillis64()` of the 32-bit build (`N2kTimer.cpp`)          → `Roll.read`

The 64-bit millisecond clock `N2kMillis64()` is the unbounded `Nat` clock `St.now` of the send model (on the
32-bit build it is the roll counter of `N2kTimer.cpp`, exact when sampled once per 2^32 ms: `C13_roll_counter`);
64-bit overflow of `NextTime` is not modelled (2^64 ms = 584 million years). The functions return, next to the new
state, the list of heartbeat messages they handed to `SendMsg` (a ghost output: the frames themselves are produced
by `Send.sendMsg`).

The model transcribes the tree with the four `fix:` commits of `known_findings.d/C12.json` applied (interval
written in 10 ms units; "keep current" resolved per device; interval 0 stores the zero period; `SendHeartbeat(int)`
tests `IsActiveNode()` like `SendHeartbeat(bool)`).
-/
namespace N2k.Heartbeat
open N2k.Time N2k.Send

/-- `N2kScheduler64Disabled` -/
def disabled64 : Nat := M64 - 1
/-- `DefaultHeartbeatInterval` -/
def defaultInterval : Nat := 60000
/-- `MaxHeartbeatInterval` -/
def maxInterval : Nat := 655320

/-- `tN2kSyncScheduler` without the static `SyncOffset` -/
structure SyncSched where
  next : Nat := disabled64
  offset : Nat := 0
  period : Nat := 0
  deriving DecidableEq, Repr

namespace SyncSched

def disable (s : SyncSched) : SyncSched := { s with next := disabled64 }
def isDisabled (s : SyncSched) : Bool := s.next == disabled64
/-- `IsTime()`: strict `N2kMillis64() > NextTime` -/
def isTime (s : SyncSched) (now64 : Nat) : Bool := decide (now64 > s.next)

/-- `UpdateNextTime()` with `SyncOffset = so`, `N2kMillis64() = now64` -/
def updateNextTime (so now64 : Nat) (s : SyncSched) : SyncSched :=
  if s.period = 0 then s.disable
  else if s.offset + so > now64 then { s with next := s.offset + so }
  else { s with next := so + s.offset + ((now64 - (s.offset + so)) / s.period + 1) * s.period }

/-- `SetPeriodAndOffset(_Period,_Offset)` -/
def setPeriodAndOffset (so now64 p o : Nat) (s : SyncSched) : SyncSched :=
  let s1 : SyncSched := { s with period := p, offset := o }
  let s2 := if p = 0 then s1.disable else s1
  updateNextTime so now64 s2

end SyncSched

/-- heartbeat part of `tInternalDevice` -/
structure HbDev where
  sched : SyncSched := {}
  seq : Nat := 0
  deriving DecidableEq, Repr

/-- the node: send-path state plus, per device (same indices as `st.devs`), the heartbeat scheduler and sequence -/
structure HSt where
  st : St
  hb : List HbDev
  syncOffset : Nat := 0            -- tN2kSyncScheduler::SyncOffset
  infoChanged : Bool := false      -- DeviceInformationChanged

/-! ## SetHeartbeatIntervalAndOffset -/

/-- one iteration of the device loop. Returns the new entry and `changed`. -/
def setOne (so now64 interval offset : Nat) (d : HbDev) : HbDev × Bool :=
  let iv := if interval = 0xffffffff then d.sched.period
            else if interval = 0xfffffffe then defaultInterval else interval
  let off := if offset = 0xffffffff then d.sched.offset else offset
  if iv = 0 then ({ d with sched := d.sched.setPeriodAndOffset so now64 0 off }, false)
  else
    let iv := if iv > maxInterval then maxInterval else iv
    let iv := if iv < 1000 then 1000 else iv
    if d.sched.period ≠ iv ∨ d.sched.offset ≠ off then
      ({ d with sched := d.sched.setPeriodAndOffset so now64 iv off }, true)
    else (d, false)

/-- the loop bounds `for (i=(iDev<0?0:iDev); i<DeviceCount && (iDev<0?true:i<iDev+1); i++)`;
`dev = none` is a negative `iDev` -/
def inLoop (dev : Option Nat) (i : Nat) : Bool :=
  match dev with
  | none => true
  | some k => i == k

def setHeartbeatIntervalAndOffset (h : HSt) (interval offset : Nat) (dev : Option Nat) : HSt :=
  if interval = 0xffffffff ∧ offset = 0xffff then h else
  let r := h.hb.mapIdx fun i d =>
    if inLoop dev i then setOne h.syncOffset h.st.now interval offset d else (d, false)
  { h with hb := r.map (·.1), infoChanged := h.infoChanged || r.any (·.2) }

/-! ## the message -/

/-- `SetN2kPGN126993(N2kMsg, timeInterval_ms, sequenceCounter)` on a fresh `tN2kMsg` (source 15, destination 255) -/
def setN2kPGN126993 (interval seq : Nat) : Msg :=
  let v := if interval > maxInterval then 0xfffe else (interval / 10) % 65536
  { prio := 7, pgn := 126993, src := 15, dst := 255, len := 8,
    data := [v % 256, v / 256, seq % 256, 0xff, 0xff, 0xff, 0xff, 0xff] }

/-! ## SendHeartbeat -/

/-- `HeartbeatSequence++; if (HeartbeatSequence>252) HeartbeatSequence=0;` on a `uint8_t` -/
def nextSeq (s : Nat) : Nat := if (s + 1) % 256 > 252 then 0 else (s + 1) % 256

/-- body of the device loop of `SendHeartbeat(bool force)` -/
def sendHeartbeatDev (force : Bool) (h : HSt) (i : Nat) : HSt × Option Msg :=
  match h.st.devs[i]?, h.hb[i]? with
  | some d, some b =>
    let ic := isAddressClaimStarted h.st.flavor h.st.now d
    let st1 := { h.st with devs := updDev h.st.devs i ic.1 }
    if ic.2 then ({ h with st := st1 }, none)
    else if force || b.sched.isTime h.st.now then
      let sc := b.sched.updateNextTime h.syncOffset h.st.now
      let m := setN2kPGN126993 sc.period (if force then 0xff else b.seq)
      let r := sendMsg st1 m (some i)
      ({ h with st := r.1, hb := h.hb.set i { sched := sc, seq := if force then b.seq else nextSeq b.seq } }, some m)
    else ({ h with st := st1 }, none)
  | _, _ => (h, none)

/-- the loop over devices `lo .. lo+n-1`, collecting `(device, message)` -/
def sendHeartbeatLoop (force : Bool) : Nat → Nat → HSt → HSt × List (Nat × Msg)
  | 0, _, h => (h, [])
  | n+1, i, h =>
    let r := sendHeartbeatDev force h i
    let rest := sendHeartbeatLoop force n (i + 1) r.1
    (rest.1, (match r.2 with | some m => [(i, m)] | none => []) ++ rest.2)

/-- `SendHeartbeat(bool force)` -/
def sendHeartbeat (force : Bool) (h : HSt) : HSt × List (Nat × Msg) :=
  if ¬ h.st.claimMode then (h, [])          -- !IsActiveNode()
  else sendHeartbeatLoop force h.st.devs.length 0 h

/-- `SendHeartbeat(int iDev)` (used by the group function handler): forced, sequence 0xff -/
def sendHeartbeatOne (h : HSt) (i : Nat) : HSt × Option Msg :=
  if ¬ h.st.claimMode then (h, none) else   -- !IsActiveNode()
  match h.st.devs[i]?, h.hb[i]? with
  | some _, some b =>
    let m := setN2kPGN126993 b.sched.period 0xff
    ({ h with st := (sendMsg h.st m (some i)).1 }, some m)
  | _, _ => (h, none)

/-! ## Open() and ParseMessages() -/

/-- `Open()`: on the transition to `os_Open`, after `StartAddressClaim()`, `SetSyncOffset()` and
`SetHeartbeatIntervalAndOffset(DefaultHeartbeatInterval,10000)` -/
def openStepH (h : HSt) : HSt :=
  let st' := openStep h.st
  if h.st.openState ≠ 3 ∧ st'.openState = 3 then
    setHeartbeatIntervalAndOffset { h with st := st', syncOffset := st'.now } defaultInterval 10000 none
  else { h with st := st' }

/-- `ParseMessages()` on an open node with nothing to receive and no pending information -/
def pollH (h : HSt) : HSt × List (Nat × Msg) :=
  let fl := sendFrames h.st.ring h.st.drv
  sendHeartbeat false { h with st := { h.st with ring := fl.1, drv := fl.2.1 } }

/-- `ParseMessages()` as the application calls it -/
def pollTopH (h : HSt) : HSt × List (Nat × Msg) :=
  if h.st.openState = 3 then pollH h
  else
    let h' := openStepH h
    if h'.st.openState = 3 then pollH h' else (h', [])

/-- `StartAddressClaim(iDev)` on the composed state -/
def claimH (h : HSt) (i : Nat) : HSt := { h with st := startAddressClaim h.st i }

/-! ## `N2kMillis64()` of the 32-bit build (`N2kTimer.cpp`): roll counter over `millis()` -/

/-- the function-static state `RollCount`, `LastRead` -/
structure Roll where
  rollCount : Nat := 0
  lastRead : Nat := 0
  deriving DecidableEq, Repr

/-- one call of `N2kMillis64()` while `millis()` returns `now32`: new static state and the value returned,
`((uint64_t)RollCount)<<32 | Now` -/
def Roll.read (r : Roll) (now32 : Nat) : Roll × Nat :=
  let rc := if r.lastRead > now32 then (r.rollCount + 1) % M32 else r.rollCount
  ({ rollCount := rc, lastRead := now32 }, rc * M32 + now32)

/-- advance the clock -/
def tickH (h : HSt) (ms : Nat) : HSt := { h with st := { h.st with now := h.st.now + ms } }

end N2k.Heartbeat
