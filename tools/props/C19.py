"""C19 - Seasmart ($PCDIN) export/import. SPEC drives tools/check.py; MANIFEST feeds tools/gen_manifest.py."""
SPEC = {
    'engine': 'seasmart', 'harness': 'seasmart.cpp',
    'repo_srcs': ['Seasmart.cpp', 'N2kMsg.cpp', 'N2kStream.cpp', 'N2kTimer.cpp'],
    'translators': ['constants'],
    'lean_modules': ['N2k.Props.Consts.C19', 'N2k.Props.C19'], 'props_files': ['N2k/Props/Consts/C19.lean', 'N2k/Props/C19.lean'],
    'case_start': ['exp', 'imp', 'probe'],
    'trusted_base': [
        "model N2k/Model/Seasmart.lean transcribes Seasmart.cpp by hand (appendByte/append2Bytes/appendWord, "
        "nmea_compute_checksum, N2kToSeasmart, readNHexByte, SeasmartToN2k incl. the three fix: commits); tied to the "
        "compiled code only by the differential run",
        "libc modelled by specification: strlen/strncmp/strncpy with their read footprint, isxdigit in the C locale "
        "(glibc: defined and false for negative chars), strtol(...,16) on <= 8 hex digits = positional value (LP64 long)",
        "char modelled by its unsigned byte value (comparisons with '*', ',', NUL and the XOR truncated to uint8_t do "
        "not depend on the signedness of char)",
        "the harness detects reads beyond the terminator with a PROT_NONE page directly behind the NUL (SIGSEGV "
        "caught per op) and, when that saw nothing, repeats the call on a malloc(strlen+1) block under ASan",
    ],
    'assumptions': ["exact-size objects: the string object ends at its terminator, the export buffer has exactly "
                    "`size` bytes", "LP64, two's complement, 8-bit char", "tN2kMsg::DataLen within 0..223 on export"],
}
MANIFEST = {
    'text': "Kernel-checked theorems over a checked-memory model of Seasmart.cpp (every access outside an object is a "
            "Fault): export writes exactly the 29+2n-character sentence plus NUL inside the buffer when size >= 30+2n "
            "and nothing (result 0) otherwise, for every message, time stamp and buffer content; the import of EVERY "
            "byte string held in an object ending at its terminator never faults and equals a pure list-level parser; "
            "import(export(m)) returns m for all PGNs < 2^24, sources, 32-bit time stamps and payloads of 0..223 bytes "
            "(also with trailing text); a successful import implies the $PCDIN shape, field values equal to the hex "
            "fields, <= 223 bytes and a matching XOR checksum. The model is tied to the compiled code by a "
            "differential run (all payload lengths, buffer sizes around the requirement, every truncation and "
            "single-character corruption of valid sentences, missing separators/'*', odd digit counts, over-long data, "
            "wrong/lower-case checksums, non-hex bytes, random strings) with a guard-page + ASan over-read detector "
            "and an oracle written from the statement.",
    'design_ref': 'DESIGN.md section 4, C19',
    'note': "Trusted: Lean kernel; hand transcription of Seasmart.cpp (with the fix commits) validated only by "
            "differential runs; libc functions modelled by specification; LP64.",
}
