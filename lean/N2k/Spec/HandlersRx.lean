import N2k.Spec.Handlers
import N2k.Model.HandlersRx
/-! Specification of the calls a history of client operations, configuration calls, frame arrivals and polls must cause
(C14, end to end): built from the history specification of the handlers (`specStep`) and the receive side's completed
messages (`rxTrack`: driver queue + C02 receive model) only. -/
namespace N2k.Handlers

/-- a message completed on `bus` while the handlers were as `s` says -/
structure Expect where
  bus : BusId
  msg : Rx.Msg
  s : SpecSt

/-- for every event of a history: the messages it completes, in order, with the handler registrations in force then -/
def expected (c : BusId → Rx.Cfg) : SpecSt → RxSide → List Ev → List (List Expect)
  | _, _, [] => []
  | s, r, .op o :: evs => [] :: expected c (specStep s o) r evs
  | s, r, e :: evs =>
    ((rxTrack c r e).2.map fun bm => ⟨bm.1, bm.2, s⟩) :: expected c s (rxTrack c r e).1 evs

/-- the call made for a completed message is the right one -/
structure CallOk (k : Call) (e : Expect) : Prop where
  bus : k.bus = e.bus
  /-- exactly that message -/
  msg : k.msg = e.msg
  /-- the plain callback once iff one is set -/
  cb : k.cb = if e.s.cb e.bus then 1 else 0
  /-- no handler twice -/
  nodup : k.hs.Nodup
  /-- exactly the handlers attached to that bus and registered for PGN 0 or the message's PGN -/
  mem : ∀ i, i ∈ k.hs ↔ e.s.matching e.bus e.msg.pgn i
  /-- in the order of the list: handlers for all PGNs before the handlers of the PGN -/
  order : k.hs.Pairwise fun i j => specPgn e.s i ≤ specPgn e.s j

/-- event by event: exactly one call per completed message, in order, and it is the right call; no other call -/
def CallsAgree : List (List Call) → List (List Expect) → Prop := Agree (Agree CallOk)

end N2k.Handlers
