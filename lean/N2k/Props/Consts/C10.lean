import N2k.Gen.Constants
import N2k.Spec.Constants
/-! C10 — the source constants its model copies have the values the model and the property statement assume.
`N2k.Gen.Const.*` is regenerated from /repo/src on every run (tools/translators/constants.py); a changed constant breaks
the obligation below. -/
namespace N2k.C10.Consts

theorem C10_const_tpCm : N2k.Gen.Const.tpCm = N2k.Spec.Const.tpCm := by decide
theorem C10_const_tpDt : N2k.Gen.Const.tpDt = N2k.Spec.Const.tpDt := by decide
theorem C10_const_tpCmBam : N2k.Gen.Const.tpCmBam = N2k.Spec.Const.tpCmBam := by decide
theorem C10_const_tpCmRts : N2k.Gen.Const.tpCmRts = N2k.Spec.Const.tpCmRts := by decide
theorem C10_const_tpCmCts : N2k.Gen.Const.tpCmCts = N2k.Spec.Const.tpCmCts := by decide
theorem C10_const_tpCmAck : N2k.Gen.Const.tpCmAck = N2k.Spec.Const.tpCmAck := by decide
theorem C10_const_tpCmAbort : N2k.Gen.Const.tpCmAbort = N2k.Spec.Const.tpCmAbort := by decide
theorem C10_const_maxDataLen : N2k.Gen.Const.maxDataLen = N2k.Spec.Const.maxDataLen := by decide

end N2k.C10.Consts
