import N2k.Gen.Layouts
import Driver.Util
-- engine: layout
/-! Engine `layout` (C05/C15): executes `encode` / `parseMsg` of `N2k/Model/Layout.lean` on the layouts GENERATED from
the C++ source on this run (`N2k/Gen/Layouts.lean`).

* `set <id> c0 c1 …`      one integer per field of the pair (order of `Pair.names`): the code of a scaled/text field,
                          the value of an integer parameter (`Pair.intCode` turns it into its code) → payload hex; a byte with
                          an untranslated bit prints as `??`; `+` is appended when only a prefix of the payload is
                          translated; `untranslated` when the setter is outside the fragment
* `parse <id> <pgn> hex`  → `refuse` | the code of every field the parser produces (`?` for an untranslated output)
* `pgnlist …`             → `no-layout` (PGN 126464 has a repeated field; the C15 harness checks it directly)
-/
namespace Driver.Layout
open N2k.Layout Driver

def findPair (id : String) : Option Pair := N2k.Gen.Layouts.all.find? (·.id == id)

def variantsOf (id : String) : List Pair := N2k.Gen.Layouts.all.filter (·.variantOf == id)

/-- the layout that describes the setter for these parameter values: the path variant whose condition holds -/
def pairForSet (id : String) (codes : List Nat) : Option Pair :=
  match (variantsOf id).find? (fun P => P.setCond.eval (fun o => codes.getD o 0)) with
  | some P => some P
  | none => findPair id

/-- the layout that describes the parser on this message: the first path variant that accepts it -/
def pairForParse (id : String) (pgn : Nat) (bytes : List Nat) : Option Pair :=
  match (variantsOf id).find? (fun P => (parseMsg P pgn (bytesToBits bytes)).isSome) with
  | some P => some P
  | none => findPair id

def byteOut (srcs : List BitSrc) (bits : List Bool) : String :=
  if srcs.any (· == .unk) then "??" else
    let b := ofBits bits
    String.ofList [hexNib ((b / 16) % 16), hexNib (b % 16)]

def chunks8 {α : Type} : Nat → List α → List (List α)
  | 0, _ => []
  | n + 1, l => if l.isEmpty then [] else l.take 8 :: chunks8 n (l.drop 8)

def setOut (P : Pair) (codes : List Nat) : String :=
  if !P.setterOK then "untranslated" else
  let S := P.setterBits
  let bits := encode S (fun o => P.intCode o (codes.getD o 0))
  let n := (S.length + 7) / 8
  let body := String.join ((chunks8 n S).zip (chunks8 n bits) |>.map fun sb => byteOut sb.1 sb.2)
  (if body.isEmpty then "-" else body) ++ (if P.setterPrefixOnly then "+" else "")

def parseOut (P : Pair) (pgn : Nat) (bytes : List Nat) : String :=
  if !P.parserOK then "untranslated" else
  match parseMsg P pgn (bytesToBits bytes) with
  | none => "refuse"
  | some vals =>
    let outs := (List.range P.names.length).filterMap fun o =>
      if P.opaqueOut.contains o then some "?"
      else if (P.parser.getD o []).isEmpty then none
      else some (toString (vals.getD o 0))
    if outs.isEmpty then "ok" else " ".intercalate outs

/-- a code on the line: decimal, or `x<hex>` = the bytes of a text field (first byte = lowest 8 bits) -/
def code? (t : String) : Nat :=
  if t.startsWith "x" then
    match hexBytes? (t.drop 1).toString with
    | some bs => bs.foldr (fun b acc => b + 256 * acc) 0
    | none => 0
  else (t.toNat?).getD 0

def step (_ : Unit) (w : List String) : Unit × String :=
  match w with
  | "set" :: id :: cs =>
    match pairForSet id (cs.map code?) with
    | none => ((), "unknown-pair")
    | some P => ((), setOut P (cs.map code?))
  | "parse" :: id :: pgn :: h :: _ =>    -- a trailing `cap=…` (caller's text buffer sizes) concerns the harness oracle only
    match pgn.toNat?, hexBytes? h with
    | some g, some bs =>
      match pairForParse id g bs with
      | some P => ((), parseOut P g bs)
      | none => ((), "unknown-pair")
    | _, _ => ((), "bad-op")
  | "pgnlist" :: _ => ((), "no-layout")
  | "prodinfo" :: _ => ((), "no-layout")   -- PGN 126996 as the node sends it from its stored product information (C15 oracle only)
  | "sat" :: _ => ((), "no-layout")    -- repeated-record PGNs (Append… builders, loops): direct oracle of the C05 harness only
  | "wp" :: _ => ((), "no-layout")
  | "pgns" :: _ => ((), "no-layout")
  | "bank" :: _ => ((), "no-layout")   -- PGN 126464: repeated field, outside the layout language (C15 oracle only)
  | _ => ((), "bad-op")

def main : IO Unit := loop step ()

end Driver.Layout
