#include "NMEA2000.h"
#include <stdio.h>
#include <string.h>
#include <vector>
#include <deque>
static uint32_t now=1000;
extern "C" uint32_t millis(){ return now; }
unsigned long N2ktoCanID(unsigned char priority, unsigned long PGN, unsigned long Source, unsigned char Destination);
struct Fr{unsigned long id; unsigned char len; unsigned char b[8];};
static int delivered=0; static void onMsg(const tN2kMsg&m){ delivered++; printf("  delivered pgn=%lu src=%d len=%d\n",m.PGN,m.Source,m.DataLen); }
struct Bus: public tNMEA2000 { std::deque<Fr> in;
 bool CANSendFrame(unsigned long, unsigned char, const unsigned char *, bool) override { return true;}
 bool CANOpen() override {return true;}
 bool CANGetFrame(unsigned long&id,unsigned char&len,unsigned char*buf) override { if(in.empty())return false; Fr f=in.front(); in.pop_front(); id=f.id;len=f.len;memcpy(buf,f.b,8); return true;}
 void rx(int src,std::vector<int> d){ Fr f; f.id=N2ktoCanID(3,129029,src,255); f.len=8; memset(f.b,0xff,8); for(size_t i=0;i<d.size();i++)f.b[i]=d[i]; in.push_back(f); ParseMessages(); }
 void run(int ms){ for(int i=0;i<ms;i++){ ParseMessages(); now++; } } };
int main(){ Bus b; b.EnableForward(false); b.SetMsgHandler(onMsg); b.SetMode(tNMEA2000::N2km_ListenAndNode,22); b.run(600);
 enum{A=1,B,C,D,E};
 // first frames, 10-byte messages (2 frames)
 b.rx(B,{0x00,10,1,2,3,4,5,6}); b.rx(C,{0x00,10,1,2,3,4,5,6}); b.rx(D,{0x00,10,1,2,3,4,5,6});
 b.rx(A,{0x00,10,1,2,3,4,5,6});            // A msg1, second frame will be lost
 b.rx(B,{0x01,7,8,9,10}); b.rx(C,{0x01,7,8,9,10}); b.rx(D,{0x01,7,8,9,10}); // B,C,D complete
 b.rx(A,{0x20,10,1,2,3,4,5,6});            // A msg2 (seq1), again second frame lost
 b.rx(B,{0x20,10,1,2,3,4,5,6}); b.rx(C,{0x20,10,1,2,3,4,5,6}); b.rx(D,{0x20,10,1,2,3,4,5,6});
 printf("now E (complete, 2 frames):\n"); int before=delivered;
 b.rx(E,{0x00,10,1,2,3,4,5,6}); b.rx(E,{0x01,7,8,9,10});
 printf("E delivered: %d (expect 1)\n", delivered-before); return 0; }
