import N2k.Lemmas.HeartbeatGrid
/-!
# `SetHeartbeatIntervalAndOffset`, `SetN2kPGN126993`, sequence step (C12)
-/
namespace N2k.Heartbeat
open N2k.Time N2k.Send

/-- the interval a call asks for, for a device whose stored period is `cur` -/
def resolveInterval (cur iv : Nat) : Nat :=
  if iv = 0xffffffff then cur else if iv = 0xfffffffe then defaultInterval else iv

/-- the offset a call asks for -/
def resolveOffset (cur off : Nat) : Nat := if off = 0xffffffff then cur else off

/-- documented range: 0 disables, otherwise 1000 .. 655320 ms -/
def clipInterval (e : Nat) : Nat :=
  if e = 0 then 0 else if e > maxInterval then maxInterval else if e < 1000 then 1000 else e

theorem clipInterval_range (e : Nat) : clipInterval e = 0 ∨ (1000 ≤ clipInterval e ∧ clipInterval e ≤ 655320) := by
  unfold clipInterval maxInterval; split
  · left; rfl
  · right; split
    · omega
    · split <;> omega

theorem clipInterval_id {e : Nat} (h1 : 1000 ≤ e) (h2 : e ≤ 655320) : clipInterval e = e := by
  unfold clipInterval maxInterval
  rw [if_neg (by omega), if_neg (by omega), if_neg (by omega)]

theorem clipInterval_zero_iff (e : Nat) : clipInterval e = 0 ↔ e = 0 := by
  unfold clipInterval maxInterval
  constructor
  · intro h; split at h
    · assumption
    · split at h
      · omega
      · split at h <;> omega
  · intro h; rw [if_pos h]

theorem setPeriodAndOffset_fields (so now p o : Nat) (s : SyncSched) :
    (s.setPeriodAndOffset so now p o).period = p ∧ (s.setPeriodAndOffset so now p o).offset = o := by
  unfold SyncSched.setPeriodAndOffset
  simp only [updateNextTime_period, updateNextTime_offset]
  by_cases h : p = 0
  · simp only [if_pos h, SyncSched.disable]; exact ⟨trivial, trivial⟩
  · simp only [if_neg h]; exact ⟨trivial, trivial⟩

theorem setPeriodAndOffset_next (so now p o : Nat) (s : SyncSched) :
    (s.setPeriodAndOffset so now p o).next = if p = 0 then disabled64 else gridNext (so + o) p now := by
  unfold SyncSched.setPeriodAndOffset
  by_cases h : p = 0
  · simp only [if_pos h]
    rw [updateNextTime_zero (by simp [SyncSched.disable, h])]; rfl
  · simp only [if_neg h]
    rw [updateNextTime_enabled (by simpa using h)]

/-- whether the loop body reschedules the device -/
def setChanged (iv off : Nat) (d : HbDev) : Bool :=
  let p := clipInterval (resolveInterval d.sched.period iv)
  let o := resolveOffset d.sched.offset off
  p != 0 && (d.sched.period != p || d.sched.offset != o)

/-- complete description of one iteration of the device loop -/
theorem setOne_spec (so now iv off : Nat) (d : HbDev) :
    let p := clipInterval (resolveInterval d.sched.period iv)
    let o := resolveOffset d.sched.offset off
    let r := setOne so now iv off d
    r.1.seq = d.seq ∧ r.1.sched.period = p ∧ r.1.sched.offset = o ∧
    r.1.sched.next = (if p = 0 then disabled64
                      else if d.sched.period ≠ p ∨ d.sched.offset ≠ o then gridNext (so + o) p now
                      else d.sched.next) ∧
    r.2 = setChanged iv off d := by
  simp only
  unfold setOne setChanged resolveOffset
  generalize hiv : resolveInterval d.sched.period iv = e
  have hiv' : (if iv = 0xffffffff then d.sched.period else if iv = 0xfffffffe then defaultInterval else iv) = e := hiv
  simp only [hiv']
  by_cases h0 : e = 0
  · have hc : clipInterval e = 0 := (clipInterval_zero_iff e).2 h0
    simp only [if_pos h0, hc, setPeriodAndOffset_fields, setPeriodAndOffset_next]
    simp
  · have hc : clipInterval e ≠ 0 := fun h => h0 ((clipInterval_zero_iff e).1 h)
    have hcl : (if (if e > maxInterval then maxInterval else e) < 1000 then 1000 else (if e > maxInterval then maxInterval else e)) = clipInterval e := by
      unfold clipInterval maxInterval; rw [if_neg h0]
      by_cases h1 : e > 655320
      · simp only [if_pos h1]; rw [if_neg (by omega)]
      · simp only [if_neg h1]
    simp only [if_neg h0, hcl]
    by_cases hch : d.sched.period ≠ clipInterval e ∨ d.sched.offset ≠ (if off = 0xffffffff then d.sched.offset else off)
    · simp only [if_pos hch, setPeriodAndOffset_fields, setPeriodAndOffset_next, if_neg hc]
      refine ⟨trivial, trivial, trivial, trivial, ?_⟩
      rcases hch with h | h <;> simp [hc, h]
    · simp only [if_neg hch, if_neg hc]
      have h1 : d.sched.period = clipInterval e := by
        apply Decidable.byContradiction; intro h; exact hch (Or.inl h)
      have h2 : d.sched.offset = (if off = 0xffffffff then d.sched.offset else off) := by
        apply Decidable.byContradiction; intro h; exact hch (Or.inr h)
      refine ⟨trivial, h1, h2, trivial, ?_⟩
      simp [← h1, ← h2]

/-- the device entry after `SetHeartbeatIntervalAndOffset` -/
theorem set_getElem? (h : HSt) (iv off : Nat) (dev : Option Nat) (i : Nat) :
    (setHeartbeatIntervalAndOffset h iv off dev).hb[i]? =
      (h.hb[i]?).map fun b =>
        if iv = 0xffffffff ∧ off = 0xffff then b
        else if inLoop dev i then (setOne h.syncOffset h.st.now iv off b).1 else b := by
  unfold setHeartbeatIntervalAndOffset
  by_cases h0 : iv = 0xffffffff ∧ off = 0xffff
  · simp only [if_pos h0]; cases h.hb[i]? <;> rfl
  · simp only [if_neg h0, List.getElem?_map, List.getElem?_mapIdx]
    cases h.hb[i]? with
    | none => rfl
    | some b =>
      simp only [Option.map_some]
      by_cases hl : inLoop dev i = true
      · simp only [if_pos hl]
      · simp only [if_neg hl]

theorem set_st (h : HSt) (iv off : Nat) (dev : Option Nat) :
    (setHeartbeatIntervalAndOffset h iv off dev).st = h.st ∧
    (setHeartbeatIntervalAndOffset h iv off dev).syncOffset = h.syncOffset := by
  unfold setHeartbeatIntervalAndOffset
  by_cases h0 : iv = 0xffffffff ∧ off = 0xffff
  · simp only [if_pos h0]; exact ⟨trivial, trivial⟩
  · simp only [if_neg h0]; exact ⟨trivial, trivial⟩

theorem set_length (h : HSt) (iv off : Nat) (dev : Option Nat) :
    (setHeartbeatIntervalAndOffset h iv off dev).hb.length = h.hb.length := by
  unfold setHeartbeatIntervalAndOffset
  by_cases h0 : iv = 0xffffffff ∧ off = 0xffff
  · simp only [if_pos h0]
  · simp only [if_neg h0, List.length_map, List.length_mapIdx]

/-! ## the message -/

/-- the published layout of PGN 126993: bytes 0-1 interval (little endian, 10 ms), byte 2 sequence -/
def decodeInterval10 (m : Msg) : Nat := (m.data.getD 0 0 + 256 * m.data.getD 1 0) * 10
def seqByte (m : Msg) : Nat := m.data.getD 2 0

theorem setN2kPGN126993_layout (p s : Nat) :
    let m := setN2kPGN126993 p s
    m.pgn = 126993 ∧ m.prio = 7 ∧ m.len = 8 ∧ m.data.length = 8 ∧ seqByte m = s % 256 ∧
    m.data.drop 3 = [0xff, 0xff, 0xff, 0xff, 0xff] := by
  simp [setN2kPGN126993, seqByte]

theorem setN2kPGN126993_interval {p : Nat} (s : Nat) (h2 : p ≤ 655320) :
    decodeInterval10 (setN2kPGN126993 p s) ≤ p ∧ p < decodeInterval10 (setN2kPGN126993 p s) + 10 := by
  unfold decodeInterval10 setN2kPGN126993 maxInterval
  simp only [if_neg (by omega : ¬ p > 655320), List.getD_cons_zero, List.getD_cons_succ]
  omega

/-! ## sequence -/

theorem nextSeq_lt {c : Nat} (h : c < 253) : nextSeq c = (c + 1) % 253 ∧ nextSeq c < 253 := by
  unfold nextSeq; split <;> omega

end N2k.Heartbeat
