import N2k.Model.Actisense
/-!
# Specification of the Actisense frame format (C17)

`<10><02> escaped(body) <10><03>` where
`body = type len prio pgn[3] dst [src time[4]] dlen data[dlen] crc`, `type = 0x93` (with source and time)
or `0x94` (without), `len = |body| - 3`, the byte sum of the body is `0 (mod 256)`, and every `0x10`
of the body is doubled.
-/
namespace N2k.Acti

/-- escape doubling of one byte -/
def esc1 (b : Byte) : List Byte := if b = 0x10 then [0x10, 0x10] else [b]

def escAll : List Byte → List Byte
  | [] => []
  | b :: t => esc1 b ++ escAll t

/-- the checksum byte that makes the byte sum of `l ++ [crc]` a multiple of 256 -/
def checksum (l : List Byte) : Byte := (256 - l.sum % 256) % 256

/-- the frame of a body (without its checksum) -/
def frame (body : List Byte) : List Byte :=
  [0x10, 0x02] ++ escAll body ++ esc1 (checksum body) ++ [0x10, 0x03]

/-- The message a frame body (unescaped bytes between start and end sequence, checksum included)
stands for, `none` if the body is not consistent: known type, length byte `= |body| - 3`, checksum
matches, embedded data length `≤ 223` and `= |body| - header - 1`. -/
def decodeBody (defaultSource now : Nat) (stampLocal : Bool) (body : List Byte) : Option Msg :=
  let t := body.getD 0 0
  let hdr := if t = 0x93 then 13 else 8
  let dlen := body.getD (hdr - 1) 0
  if (t = 0x93 ∨ t = 0x94) ∧ body.length = body.getD 1 0 + 3 ∧
      body.getD (body.length - 1) 0 = checksum (body.take (body.length - 1)) ∧
      dlen ≤ 223 ∧ body.length = hdr + dlen + 1 then
    some { prio := body.getD 2 0
           pgn := body.getD 3 0 + 256 * body.getD 4 0 + 65536 * body.getD 5 0
           dst := body.getD 6 0
           src := if t = 0x93 then body.getD 7 0 else defaultSource
           time := if t = 0x93 then (if stampLocal = false then body.getD 8 0 + 256 * body.getD 9 0 +
                     65536 * body.getD 10 0 + 16777216 * body.getD 11 0 else now) else now
           len := dlen
           data := (body.drop hdr).take dlen }
  else none

/-- a message the property speaks about: `IsValid()` (PGN ≠ 0, DataLen > 0), PGN below 2^24, at most
223 payload bytes, all fields bytes -/
structure Valid (m : Msg) : Prop where
  pgn_pos : 0 < m.pgn
  pgn_lt : m.pgn < 2 ^ 24
  len_pos : 0 < m.len
  len_le : m.len ≤ 223
  data_len : m.data.length = m.len
  data_bytes : ∀ b ∈ m.data, b < 256
  prio_lt : m.prio < 256
  dst_lt : m.dst < 256
  src_lt : m.src < 256

/-- what the reader reports for the frame of `m`: everything but the time stamp unchanged; the time
stamp is the embedded one (it travels as 32 bits) or, with `stampLocal`, the local receive time — the
property leaves the decoded time stamp open -/
def received (c : Cfg) (m : Msg) : Msg :=
  { m with time := if c.stampLocal = false then m.time % 2 ^ 32 else c.now }

/-- the frame body (without checksum) of a message -/
def bodyOf (m : Msg) : List Byte := header m ++ m.data

/-- The reader states that can occur: the constructor (with arbitrary `MsgBuf` content) followed by any
number of loop iterations of `GetMessageFromStream` with any byte, any `readOut`, any default source
and clock value. -/
inductive Reachable : RState → Prop
  | init (buf0 : List Nat) (h : buf0.length = maxBuf) : Reachable (RState.init buf0)
  | step {s s' : RState} (c : Cfg) (ro : Bool) (b : Nat) (k : Bool) (r : Option Msg) :
      Reachable s → readerStep c ro s b = .ok (s', k, r) → Reachable s'

end N2k.Acti
