import N2k.Model.Actisense
import Driver.Util
-- engine: acti
/-! Engine `acti` (C17): runs `sendInActisense`, `getMessage`, `parseAll` of the model.

ops:  enc prio pgn dst src time datahex | rnew defaultSource fill | now t | push hex | drop n |
      get readOut | parse -/
namespace Driver.Actisense
open N2k.Acti Driver

structure St where
  r : RState
  cfg : Cfg
  stream : List Nat
  fwd : FwdCfg := ⟨0, false, false, false, false⟩
  addr : Nat := 0

def St.new : St := { r := RState.init (List.replicate maxBuf 0), cfg := ⟨true, 65, 0, false⟩, stream := [] }

def faultStr : Fault → String
  | .encIndex => "fault:encIndex"
  | .encData => "fault:encData"
  | .bufIndex => "fault:bufIndex"
  | .dataIndex => "fault:dataIndex"
  | .livelock => "fault:livelock"

def msgStr (m : Msg) : String :=
  s!"{m.prio} {m.pgn} {m.dst} {m.src} {m.time} {m.len} {hexOfBytes m.data}"

def tail (s : St) : String := s!"{s.stream.length} {boolStr (handling s.r)}"

def step (s : St) (w : List String) : St × String :=
  match w with
  | ["enc", prio, pgn, dst, src, time, dat] =>
    match nat? prio, nat? pgn, nat? dst, nat? src, nat? time, hexBytes? dat with
    | some prio, some pgn, some dst, some src, some time, some d =>
      match sendInActisense ⟨prio, pgn, dst, src, time, d.length, d⟩ with
      | .ok bytes => (s, hexOfBytes bytes)
      | .error f => (s, faultStr f)
    | _, _, _, _, _, _ => (s, "bad-op")
  | ["encpush", prio, pgn, dst, src, time, dat] =>
    match nat? prio, nat? pgn, nat? dst, nat? src, nat? time, hexBytes? dat with
    | some prio, some pgn, some dst, some src, some time, some d =>
      match sendInActisense ⟨prio, pgn, dst, src, time, d.length, d⟩ with
      | .ok bytes => ({ s with stream := s.stream ++ bytes }, hexOfBytes bytes)
      | .error f => (s, faultStr f)
    | _, _, _, _, _, _ => (s, "bad-op")
  -- node level: forwarding policy (harness actifwd.cpp)
  | ["fnew", mode, en, own, known, sys, addr] =>
    match nat? mode, nat? addr with
    | some mode, some addr =>
      ({ s with fwd := ⟨mode, en == "1", own == "1", known == "1", sys == "1"⟩, addr := addr }, s!"ok {addr}")
    | _, _ => (s, "bad-op")
  | ["fsend", t, prio, pgn, dst, dat] =>
    match nat? t, nat? prio, nat? pgn, nat? dst, hexBytes? dat with
    | some t, some prio, some pgn, some dst, some d =>
      if sendAccepted s.fwd then
        match forwarded (forwardOwn s.fwd) ⟨prio, pgn, dst, s.addr, t, d.length, d⟩ with
        | .ok bytes => (s, "1 " ++ hexOfBytes bytes)
        | .error f => (s, faultStr f)
      else (s, "0 -")
    | _, _, _, _, _ => (s, "bad-op")
  | ["frx", t, prio, pgn, src, dst, dat, known, sys] =>
    match nat? t, nat? prio, nat? pgn, nat? src, nat? dst, hexBytes? dat with
    | some t, some prio, some pgn, some src, some dst, some d =>
      match forwarded (forwardRx s.fwd (known == "1") (sys == "1") (src == s.addr)) ⟨prio, pgn, dst, src, t, d.length, d⟩ with
      | .ok bytes => (s, hexOfBytes bytes)
      | .error f => (s, faultStr f)
    | _, _, _, _, _, _ => (s, "bad-op")
  | ["rnew", src, fill, mode] =>
    match nat? src, nat? fill with
    | some src, some fill =>
      ({ r := RState.init (List.replicate maxBuf fill),
         cfg := { s.cfg with defaultSource := src, stampLocal := mode == "local" }, stream := [] }, "ok")
    | _, _ => (s, "bad-op")
  | ["rnew", src, fill] =>
    match nat? src, nat? fill with
    | some src, some fill =>
      ({ r := RState.init (List.replicate maxBuf fill), cfg := { s.cfg with defaultSource := src }, stream := [] }, "ok")
    | _, _ => (s, "bad-op")
  | ["now", t] =>
    match nat? t with
    | some t => ({ s with cfg := { s.cfg with now := t } }, "ok")
    | none => (s, "bad-op")
  | ["push", h] =>
    match hexBytes? h with
    | some b => let s' := { s with stream := s.stream ++ b }; (s', s!"ok {s'.stream.length}")
    | none => (s, "bad-op")
  | ["drop", n] =>
    match nat? n with
    | some n => let s' := { s with stream := s.stream.drop n }; (s', s!"ok {s'.stream.length}")
    | none => (s, "bad-op")
  | ["get", ro] =>
    match getMessage s.cfg (ro != "0") s.r s.stream with
    | .error f => (s, faultStr f)
    | .ok (r', rest, res) =>
      let s' := { s with r := r', stream := rest }
      match res with
      | none => (s', s!"0 {tail s'}")
      | some m => (s', s!"1 {tail s'} {msgStr m}")
  | ["parse"] =>
    match parseAll s.cfg (s.stream.length + 1) s.r s.stream with
    | .error f => (s, faultStr f)
    | .ok (r', rest, ms) =>
      let s' := { s with r := r', stream := rest }
      (s', s!"{ms.length} {tail s'}" ++ String.join (ms.map fun m => " ; " ++ msgStr m))
  | _ => (s, "bad-op")

def main : IO Unit := loop step St.new

end Driver.Actisense
