import N2k.Model.GroupFunction
import Driver.Util
-- engine: gf
/-! Engine `gf` (C09): runs `handleGroupFunction` / `pollG` of `Model/GroupFunction.lean` on reassembled
PGN 126208 messages and prints the messages handed to the (always accepting) driver, reassembled. -/
namespace Driver.GroupFunction
open N2k.Send N2k.Time N2k.GF Driver

def emptyFrame : Frame := ⟨0, 0, []⟩

def isFp (pgn : Nat) : Bool := pgn == 126208 || pgn == 126464 || pgn == 126996 || pgn == 126998

/-- printing only: group the frames the driver got into messages (fast packets of the four PGNs above are
reassembled: first frame gives the length, following frames of the same identifier continue it) -/
def reassemble : Nat → List Frame → List (Nat × List Nat)
  | 0, _ => []
  | _, [] => []
  | fuel + 1, f :: rest =>
    let pgn := (canIdToN2k f.id).2.1
    if isFp pgn then
      let total := f.data.getD 1 0
      let nmore := if total > 6 then (total - 6 + 6) / 7 else 0
      let more := (rest.take nmore).filter (fun g => g.id == f.id)
      let bytes := f.data.drop 2 ++ more.flatMap (fun g => g.data.drop 1)
      (f.id, bytes.take total) :: reassemble fuel (rest.drop nmore)
    else (f.id, f.data.take f.len) :: reassemble fuel rest

def msgStr (x : Nat × List Nat) : String :=
  let h := canIdToN2k x.1
  let pl := if h.2.1 == 126993 then x.2.drop 2 else x.2     -- heartbeat: interval bytes are C12's subject
  s!"{h.2.1}:{h.2.2.1}:{h.2.2.2}:{h.1}:{hexOfBytes pl}"

def msgsStr (l : List Frame) : String :=
  let ms := reassemble l.length l
  if ms.isEmpty then "-" else " ".intercalate (ms.map msgStr)

def takeSent (g : GSt) : GSt × List Frame :=
  ({ g with s := { g.s with drv := { g.s.drv with sent := [] } } }, g.s.drv.sent)

def natList? (l : List String) : Option (List Nat) := l.mapM nat?

def cstrOf (l : List Nat) : List Nat := l.takeWhile (· ≠ 0)

def step (st : Option GSt) (w : List String) : Option GSt × String :=
  match w with
  | ["reset", fl, mode, now] =>
    match nat? mode, nat? now with
    | some mode, some now =>
      let f := if fl = "t32" then Flavor.t32 else Flavor.t64
      let s : St := { flavor := f, now := now, listenOnly := mode == 0, claimMode := mode == 1 || mode == 2,
                      lists := {}, devs := [],
                      ring := { n := 40, buf := fun _ => emptyFrame, read := 0, write := 0 },
                      drv := { script := [], dflt := true, sent := [] } }
      (some { s := s, attrs := [], conf := ⟨[], [], []⟩ }, "ok")
    | _, _ => (st, "bad-op")
  | _ =>
  match st with
  | none => (st, "bad-op")
  | some g =>
    match w with
    | ["dev", i, src, un, man, di, fn, cl, si, ig] =>
      match natList? [i, src, un, man, di, fn, cl, si, ig] with
      | some [i, src, un, man, di, fn, cl, si, ig] =>
        if i ≠ g.attrs.length then (st, "bad-op") else
        let a : Attr := { uniqueNumber := un, manufacturerCode := man, deviceInstance := di, deviceFunction := fn,
                          deviceClass := cl, systemInstance := si, industryGroup := ig,
                          pendingClaim := Sched.disabled g.s.flavor }
        let d : Dev := { source := src, name := a.name, claimTimer := Sched.disabled g.s.flavor,
                         endSource := if src > 0 then src - 1 else 251 }
        let s := { g.s with devs := g.s.devs ++ [d], ring := { g.s.ring with n := 40 * (g.s.devs.length + 1) } }
        (some { g with s := s, attrs := g.attrs ++ [a] }, "ok")
      | _ => (st, "bad-op")
    | ["prod", i, ver, code, mid, sw, mv, sc, cert, len] =>
      match natList? [i, ver, code, cert, len], hexBytes? mid, hexBytes? sw, hexBytes? mv, hexBytes? sc with
      | some [i, ver, code, cert, len], some mid, some sw, some mv, some sc =>
        match g.attrs[i]? with
        | some a =>
          let p : Prod := ⟨ver, code, (cstrOf mid).take 32, (cstrOf sw).take 32, (cstrOf mv).take 32, (cstrOf sc).take 32, cert, len⟩
          (some (setAttr g i { a with prod := some p }), "ok")
        | none => (st, "bad-op")
      | _, _, _, _, _ => (st, "bad-op")
    | ["conf", man, d1, d2] =>
      match hexBytes? man, hexBytes? d1, hexBytes? d2 with
      | some man, some d1, some d2 =>
        (some { g with conf := ⟨(cstrOf man).take 70, (cstrOf d1).take 70, (cstrOf d2).take 70⟩ }, "ok")
      | _, _, _ => (st, "bad-op")
    | ["confp", man, d1, d2] =>     -- the same strings given as PROGMEM: the model state is the same (copied at the first write)
      match hexBytes? man, hexBytes? d1, hexBytes? d2 with
      | some man, some d1, some d2 =>
        (some { g with conf := ⟨(cstrOf man).take 70, (cstrOf d1).take 70, (cstrOf d2).take 70⟩ }, "ok")
      | _, _, _ => (st, "bad-op")
    | "txlist" :: i :: pgns =>
      match nat? i, natList? pgns with
      | some i, some ps =>
        match g.s.devs[i]? with
        | some d => (some { g with s := { g.s with devs := g.s.devs.set i { d with txList := ps } } }, "ok")
        | none => (st, "bad-op")
      | _, _ => (st, "bad-op")
    | "rxlist" :: i :: pgns =>
      match nat? i, natList? pgns with
      | some i, some ps =>
        match g.attrs[i]? with
        | some a => (some (setAttr g i { a with rxList := ps }), "ok")
        | none => (st, "bad-op")
      | _, _ => (st, "bad-op")
    | ["addhandler", p] =>
      match nat? p with
      | some p => (some { g with chain := addHandler g.chain (.base p) }, "ok")
      | none => (st, "bad-op")
    | ["gf", src, dst, prio, len, hx] =>
      match natList? [src, dst, prio, len], hexBytes? hx with
      | some [src, dst, prio, len], some data =>
        -- the `ParseMessages()` that delivers the message first runs `SendPendingInformation`
        let g0 := pollG g
        let g1 := handleGroupFunction g0 { prio := prio, pgn := 126208, src := src, dst := dst, len := len, data := data }
        let (g2, fr) := takeSent g1
        (some g2, msgsStr fr)
      | _, _ => (st, "bad-op")
    | ["gftp", _, _, _, _] => (st, "tp")     -- ISO-TP carried request: judged by the harness oracle only (last op of its case)
    | ["t", ms] => match nat? ms with
      | some k => (some { g with s := { g.s with now := g.s.now + k } }, "ok")
      | none => (st, "bad-op")
    | ["poll"] =>
      let (g1, fr) := takeSent (pollG g)
      (some g1, msgsStr fr)
    | ["getDevInfo", i] =>
      match nat? i with
      | some i => match g.attrs[i]? with
        | some a => (st, s!"{a.uniqueNumber} {a.manufacturerCode} {a.deviceInstance} {a.deviceFunction} {a.deviceClass} {a.systemInstance} {a.industryGroup} {String.ofList (Nat.toDigits 16 a.name)}")
        | none => (st, "bad-op")
      | none => (st, "bad-op")
    | ["getInstDesc"] => (st, s!"{hexOfBytes g.conf.d1} {hexOfBytes g.conf.d2} {hexOfBytes g.conf.man}")
    | ["getHeartbeat", i] =>
      match nat? i with
      | some i => match g.attrs[i]? with
        | some a => (st, s!"{a.hbPeriod} {a.hbOffset}")
        | none => (st, "bad-op")
      | none => (st, "bad-op")
    | ["readResetFlags"] =>
      (some { g with devInfoChanged := false, instDescChanged := false }, s!"{boolStr g.devInfoChanged} {boolStr g.instDescChanged}")
    | _ => (st, "bad-op")

def main : IO Unit := loop step none

end Driver.GroupFunction
