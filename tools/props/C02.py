"""C02 - reassembly of received frames (single frame / fast packet) into messages."""
SPEC = {
    'engine': 'rx', 'harness': 'rx.cpp',
    'repo_srcs': ['N2kMsg.cpp', 'N2kStream.cpp', 'N2kMessages.cpp', 'N2kTimer.cpp', 'N2kGroupFunction.cpp', 'N2kGroupFunctionDefaultHandlers.cpp', 'NMEA2000.cpp'],
    'variants': ['', 't32'],
    'lean_modules': ['N2k.Props.C02'], 'props_files': ['N2k/Props/C02.lean'],
    'translators': ['pgn_tables'],
    'case_start': ['reset'],
    'trusted_base': [],
    'assumptions': [],
}
MANIFEST = {'text': 'wip', 'design_ref': 'DESIGN.md section 4, C02', 'note': 'wip'}
