"""Registry of properties: which Lean modules, harness, sources and case markers each check uses."""

TRUSTED_BASE = [
    "Lean 4.33.0 kernel (lake build; leanchecker re-check in the thorough tier)",
    "axioms allowed per theorem: propext, Classical.choice, Quot.sound (audited by #print axioms on every run); "
    "no native_decide / bv_decide / sorry / user axioms (grep on every run)",
    "Lean compiler+runtime for the driver n2kdrv only (executes model definitions for the correspondence)",
    "correspondence harness (g++ 12, ASan+UBSan, x86-64 LP64 little-endian) and its generators: differential "
    "testing ties the hand-written model to /repo/src as compiled on this run",
]

ALL_LIB = ['N2kMsg.cpp', 'N2kStream.cpp', 'N2kMessages.cpp', 'N2kTimer.cpp', 'N2kGroupFunction.cpp',
           'N2kGroupFunctionDefaultHandlers.cpp', 'NMEA2000.cpp', 'N2kDeviceList.cpp', 'Seasmart.cpp',
           'ActisenseReader.cpp', 'N2kMaretron.cpp']

PROPS = {
    'C20': {
        'engine': 'ring', 'harness': 'ring.cpp', 'repo_srcs': [],
        'lean_modules': ['N2k.Props.C20'], 'props_files': ['N2k/Props/C20.lean'],
        'case_start': ['new', 'pnew'],
        'trusted_base': ["model N2k/Model/RingBuffer.lean transcribes RingBuffer.tpp by hand (T = uint32_t); "
                         "uint16_t index arithmetic modelled on Nat (sizes up to 65535, no overflow possible: "
                         "head+1 is computed in int)"],
        'assumptions': ["single-threaded use of the buffers", "element type is trivially copyable (memcpy)"],
    },
}
