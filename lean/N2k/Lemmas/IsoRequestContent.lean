import N2k.Spec.IsoRequest
/-! Payload layout of the answers (60928, 126464, 126996, 126998) and what the reference decoders of
`Spec/IsoRequest.lean` read from them. -/
namespace N2k.IsoRequest
open N2k.Send N2k.Time

/-! ## integers -/

theorem range8 : List.range 8 = [0, 1, 2, 3, 4, 5, 6, 7] := by decide

theorem fromLE_le64 (v : Nat) (h : v < 2^64) : fromLE (le64 v) = v := by
  simp only [le64, range8, List.map_cons, List.map_nil, fromLE, Nat.shiftRight_eq_div_pow]
  omega

theorem fromLE_le2 (v : Nat) (h : v < 65536) : fromLE (le2 v) = v := by
  simp only [le2, fromLE, Nat.shiftRight_eq_div_pow]
  omega

theorem le3_value (p : Nat) (h : p < 2^24) :
    p % 256 + 256 * ((p >>> 8) % 256) + 65536 * ((p >>> 16) % 256) = p := by
  simp only [Nat.shiftRight_eq_div_pow]
  omega

theorem decode3_flatMap : ∀ (l : List Nat), (∀ p ∈ l, p < 2^24) → decode3 (l.flatMap le3) = l
  | [], _ => rfl
  | p :: t, h => by
    have hp := h p (List.mem_cons_self)
    have ht := decode3_flatMap t (fun q hq => h q (List.mem_cons_of_mem _ hq))
    simp only [List.flatMap_cons, le3, List.cons_append, List.nil_append, decode3, ht, le3_value p hp]

theorem length_flatMap_le3 : ∀ (l : List Nat), (l.flatMap le3).length = 3 * l.length
  | [] => rfl
  | p :: t => by simp only [List.flatMap_cons, List.length_append, length_flatMap_le3 t, le3, List.length_cons, List.length_nil]; omega

/-! ## PGN lists -/

theorem defTx_small : ∀ p ∈ Gen.defTransmitMessages, p < 2^24 := by decide
theorem defRx_small : ∀ p ∈ Gen.defReceiveMessages, p < 2^24 := by decide

/-- payload of a PGN list: the list kind, then the library's default list followed by the declared one, cut
to 74 PGNs, three little-endian bytes each; it fits a fast packet -/
theorem pgnList_content (d : Dev) (dst kind : Nat) (defs decl : List Nat)
    (h1 : ∀ p ∈ defs, p < 2^24) (h2 : ∀ p ∈ decl, p < 2^24) :
    let t := pgnListMsg d dst kind defs decl
    t.pgn = 126464 ∧ t.dst = dst ∧ t.prio = 6 ∧ t.tp = false ∧ t.data.head? = some kind ∧
    decode3 t.data.tail = (defs ++ decl).take 74 ∧ t.len = t.data.length ∧ t.len ≤ 223 := by
  have hall : ∀ p ∈ (defs ++ decl).take MAX_PGNS_IN_LIST, p < 2^24 := by
    intro p hp
    rcases List.mem_append.mp ((List.take_sublist _ _).subset hp) with h | h
    · exact h1 p h
    · exact h2 p h
  have hlen : ((defs ++ decl).take MAX_PGNS_IN_LIST).length ≤ 74 := by
    rw [List.length_take]; exact Nat.min_le_left _ _
  refine ⟨rfl, rfl, rfl, rfl, rfl, ?_, ?_, ?_⟩
  · exact decode3_flatMap _ hall
  · simp only [pgnListMsg, List.length_cons, length_flatMap_le3]; omega
  · simp only [pgnListMsg]; omega

/-! ## fixed-length text -/

theorem progStr_nil : ∀ n, progStr n [] = List.replicate n 0xff
  | 0 => rfl
  | n+1 => by simp [progStr, progStr_nil n, List.replicate_succ]

/-- the PROGMEM builder's loops write the same bytes as `AddStr` -/
theorem progStr_eq_fixStr : ∀ (n : Nat) (s : List Nat), progStr n s = fixStr s n
  | 0, s => by simp [progStr, fixStr]
  | n+1, [] => by simp [progStr, progStr_nil, fixStr, cstr, List.replicate_succ]
  | n+1, b :: t => by
    by_cases hb : b = 0
    · subst hb
      simp [progStr, progStr_nil, fixStr, cstr, List.replicate_succ]
    · have ih := progStr_eq_fixStr n t
      have hc : cstr (b :: t) = b :: cstr t := by simp [cstr, hb]
      simp only [progStr, hb, ↓reduceIte, ih, fixStr, hc, List.take_succ_cons, List.length_cons, List.cons_append,
        Nat.add_sub_add_right]

theorem length_fixStr (s : List Nat) (n : Nat) : (fixStr s n).length = n := by
  simp only [fixStr, List.length_append, List.length_take, List.length_replicate]
  omega

theorem takeWhile_all {α : Type} (p : α → Bool) : ∀ (l : List α), (∀ a ∈ l, p a = true) → l.takeWhile p = l
  | [], _ => rfl
  | a :: t, h => by
    simp [h a (List.mem_cons_self), takeWhile_all p t (fun b hb => h b (List.mem_cons_of_mem _ hb))]

theorem cstr_subset (s : List Nat) : ∀ b ∈ cstr s, b ∈ s := by
  intro b hb
  exact (List.takeWhile_sublist _).subset hb

/-- the characters of a fixed-length field are recovered by dropping the 0xFF padding (the text has no 0xFF) -/
theorem unpad_fixStr (s : List Nat) (n : Nat) (h : ∀ b ∈ s, b ≠ 0xff) : unpad (fixStr s n) = (cstr s).take n := by
  have hall : ∀ a ∈ (cstr s).take n, (a != 0xff) = true := by
    intro a ha
    have := h a (cstr_subset s a ((List.take_sublist _ _).subset ha))
    simpa using this
  unfold unpad fixStr
  rw [List.takeWhile_append, takeWhile_all _ _ hall]
  simp

/-! ## variable-length text -/

/-- with at least 73 free bytes (`used ≤ 150`) a field is `[len+2, 1]` followed by at most 71 characters -/
theorem varStr_eq (used : Nat) (s : Option (List Nat)) (hu : used ≤ 150) :
    varStr used s MaxConfigField = [min (optCstr s).length 71 + 2, 1] ++ (optCstr s).take 71 := by
  have hfree : (if used < MaxDataLen then MaxDataLen - used else 0) = 223 - used := by
    have : used < MaxDataLen := by show used < 223; omega
    rw [if_pos this]; rfl
  have hmax : MaxConfigField = 71 := rfl
  simp only [varStr, hfree, hmax]
  by_cases he : optCstr s = []
  · have h73 : 2 ≤ 223 - used := by omega
    simp [he, h73]
  · have h2 : ¬ (223 - used ≤ 2 ∨ optCstr s = []) := by
      intro h; rcases h with h | h
      · omega
      · exact he h
    rw [if_neg h2]
    have hm : min (min (optCstr s).length 71) (223 - used - 2) = min (optCstr s).length 71 := by omega
    simp only [hm]
    have hlt : (min (optCstr s).length 71 + 2) % 256 = min (optCstr s).length 71 + 2 := by omega
    rw [hlt]
    congr 1
    rw [List.take_eq_take_iff]
    omega

theorem length_varStr (used : Nat) (s : Option (List Nat)) (hu : used ≤ 150) :
    (varStr used s MaxConfigField).length = min (optCstr s).length 71 + 2 := by
  rw [varStr_eq used s hu]
  simp only [List.length_append, List.length_cons, List.length_nil, List.length_take]
  omega

/-- reading back one field that is followed by `rest` -/
theorem parseVar_field (c rest : List Nat) :
    parseVar (([min c.length 71 + 2, 1] ++ c.take 71) ++ rest) = some (1, c.take 71, rest) := by
  have hl : (c.take 71).length = min c.length 71 := by rw [List.length_take]; omega
  simp only [List.cons_append, List.nil_append, parseVar, Nat.add_sub_cancel, List.length_append]
  rw [if_pos (by omega), ← hl, List.take_left', List.drop_left'] <;> rfl

end N2k.IsoRequest
