import N2k.Lemmas.ClaimNext
import N2k.Lemmas.ClaimSend
/-! Invariant of a library instance on the bus (`LibOK`) and the announcement relation `Ann`: which devices a
step of the instance announces on the bus, which it leaves untouched. -/
namespace N2k.Bus
open N2k.Send N2k.Time N2k.Claim

/-- a well-formed device: 64-bit NAME, address valid or null, and a valid address comes with a valid
end-of-search address -/
def DevOK (d : Dev) : Prop :=
  d.name < 2^64 ∧ (d.source ≤ 251 ∨ d.source = 254) ∧ (d.source ≤ 251 → d.endSource ≤ 251)

/-- devices of one instance do not share a valid address -/
def SibOK (devs : List Dev) : Prop :=
  ∀ (i j : Nat) (di dj : Dev), i ≠ j → devs[i]? = some di → devs[j]? = some dj → di.source = dj.source → di.source = 254

structure LibOK (x : Inst) : Prop where
  send : SendOK x.s
  devs : ∀ d ∈ x.s.devs, DevOK d
  sibs : SibOK x.s.devs

theorem DevOK.src_lt {d : Dev} (h : DevOK d) : d.source < 256 := by
  rcases h.2.1 with h | h <;> omega

theorem LibOK.dev {x : Inst} (ok : LibOK x) {i : Nat} {d : Dev} (h : x.s.devs[i]? = some d) : DevOK d :=
  ok.devs d (List.mem_of_getElem? h)

theorem mem_siblings (devs : List Dev) (i a : Nat) :
    a ∈ siblings devs i ↔ ∃ j dj, j ≠ i ∧ devs[j]? = some dj ∧ dj.source = a := by
  unfold siblings
  simp only [List.mem_map, List.mem_eraseIdx_iff_getElem?]
  constructor
  · rintro ⟨d, ⟨j, hj, hd⟩, rfl⟩; exact ⟨j, d, hj, hd, rfl⟩
  · rintro ⟨j, dj, hj, hd, rfl⟩; exact ⟨dj, ⟨j, hj, hd⟩, rfl⟩

theorem not_sib_of_contains_false {devs : List Dev} {i a : Nat} (h : (siblings devs i).contains a = false)
    {j : Nat} {dj : Dev} (hj : j ≠ i) (hd : devs[j]? = some dj) : dj.source ≠ a := by
  intro e
  have : a ∈ siblings devs i := (mem_siblings devs i a).mpr ⟨j, dj, hj, hd, e⟩
  have : (siblings devs i).contains a = true := List.contains_iff_mem.mpr this
  rw [h] at this; cases this

theorem devsOK_set {devs : List Dev} (h : ∀ d ∈ devs, DevOK d) (i : Nat) {d' : Dev} (hd' : DevOK d') :
    ∀ d ∈ devs.set i d', DevOK d := by
  intro d hd
  rcases List.mem_or_eq_of_mem_set hd with h1 | h1
  · exact h d h1
  · rw [h1]; exact hd'

/-- replacing device `i` keeps the siblings apart if the new address is the old one, null, or unused by the others -/
theorem sibOK_set {devs : List Dev} (h : SibOK devs) (i : Nat) (d d' : Dev) (hd : devs[i]? = some d)
    (hs : d'.source = d.source ∨ d'.source = 254 ∨ (siblings devs i).contains d'.source = false) :
    SibOK (devs.set i d') := by
  intro a b da db hab ha hb he
  obtain ⟨hlen, _⟩ := List.getElem?_eq_some_iff.mp hd
  by_cases hai : i = a
  · subst hai
    rw [List.getElem?_set_self hlen] at ha
    rw [List.getElem?_set_ne hab] at hb
    cases ha
    rcases hs with hs | hs | hs
    · rw [hs]; rw [hs] at he; exact h i b d db hab hd hb he
    · exact hs
    · exact absurd he.symm (not_sib_of_contains_false hs (Ne.symm hab) hb)
  · rw [List.getElem?_set_ne hai] at ha
    by_cases hbi : i = b
    · subst hbi
      rw [List.getElem?_set_self hlen] at hb
      cases hb
      rcases hs with hs | hs | hs
      · rw [hs] at he; exact h a i da d hab ha hd he
      · rw [he]; exact hs
      · exact absurd he (not_sib_of_contains_false hs (Ne.symm hai) ha)
    · rw [List.getElem?_set_ne hbi] at hb
      exact h a b da db hab ha hb he

/-- **announcement relation** between an instance before (`x`) and after (`x'`) a step: `out` is what the driver
accepted during the step; every device after the step is announced by a claim frame in `out`, or (only outside
`P`) is the same (NAME, address) as before and does not hold an address in `A`. -/
def Ann (P : Nat → Prop) (A : Nat → Prop) (x x' : Inst) : Prop :=
  ∃ out, x'.s.drv.sent = x.s.drv.sent ++ out ∧ x'.s.devs.length = x.s.devs.length ∧
    x'.s.openState = x.s.openState ∧
    ∀ i d', x'.s.devs[i]? = some d' → claimFrameL d' ∈ out ∨
      (¬ P i ∧ ∃ d, x.s.devs[i]? = some d ∧ d.name = d'.name ∧ d.source = d'.source ∧ (d'.source < 252 → ¬ A d'.source))

def None_ : Nat → Prop := fun _ => False

theorem claimFrameL_congr {d d' : Dev} (hn : d.name = d'.name) (hs : d.source = d'.source) :
    claimFrameL d = claimFrameL d' := by unfold claimFrameL; rw [hn, hs]

theorem Ann.refl (x : Inst) : Ann None_ None_ x x :=
  ⟨[], by simp, rfl, rfl, fun i d' h => Or.inr ⟨fun h => h, d', h, rfl, rfl, fun _ h => h⟩⟩

theorem Ann.mono {P P' A A' : Nat → Prop} {x x' : Inst} (h : Ann P A x x') (hp : ∀ i, P' i → P i) (ha : ∀ a, A' a → A a) :
    Ann P' A' x x' := by
  obtain ⟨out, h1, h2, h3, h4⟩ := h
  refine ⟨out, h1, h2, h3, fun i d' hd => ?_⟩
  rcases h4 i d' hd with h | ⟨np, d, hd0, hn, hs, hna⟩
  · exact Or.inl h
  · exact Or.inr ⟨fun hp' => np (hp i hp'), d, hd0, hn, hs, fun hl ha' => hna hl (ha _ ha')⟩

theorem Ann.trans {P Q A B : Nat → Prop} {x y z : Inst} (h1 : Ann P A x y) (h2 : Ann Q B y z) :
    Ann (fun i => P i ∨ Q i) (fun a => A a ∨ B a) x z := by
  obtain ⟨o1, a1, a2, a3, a4⟩ := h1
  obtain ⟨o2, b1, b2, b3, b4⟩ := h2
  refine ⟨o1 ++ o2, by rw [b1, a1, List.append_assoc], by rw [b2, a2], by rw [b3, a3], fun i dz hz => ?_⟩
  rcases b4 i dz hz with h | ⟨nq, dy, hy, hn, hs, hnb⟩
  · exact Or.inl (List.mem_append_right _ h)
  · rcases a4 i dy hy with h | ⟨np, dx, hx, hn', hs', hna⟩
    · left; rw [← claimFrameL_congr hn hs]; exact List.mem_append_left _ h
    · right
      refine ⟨fun h => h.elim np nq, dx, hx, hn'.trans hn, hs'.trans hs, fun hl h => ?_⟩
      rcases h with h | h
      · rw [← hs] at hl h; exact hna hl h
      · exact hnb hl h

/-! ## single-device updates -/

/-- `x1` differs from `x` at most in device `i` and in the latches -/
structure Only (i : Nat) (x x1 : Inst) : Prop where
  st : x1.s = { x.s with devs := x1.s.devs }
  len : x1.s.devs.length = x.s.devs.length
  other : ∀ k, k ≠ i → x1.s.devs[k]? = x.s.devs[k]?

theorem Only.refl (i : Nat) (x : Inst) : Only i x x := ⟨rfl, rfl, fun _ _ => rfl⟩

theorem Only.trans {i : Nat} {x y z : Inst} (h1 : Only i x y) (h2 : Only i y z) : Only i x z :=
  ⟨by rw [h2.st, h1.st], by rw [h2.len, h1.len], fun k hk => by rw [h2.other k hk, h1.other k hk]⟩

theorem Only.sendOK {i : Nat} {x y : Inst} (h : Only i x y) (ok : SendOK x.s) : SendOK y.s := by
  rw [h.st]; exact ⟨ok.cm, ok.lo, ok.ring, ok.script, ok.dflt, ok.nofp⟩

theorem Only.openState {i : Nat} {x y : Inst} (h : Only i x y) : y.s.openState = x.s.openState := by rw [h.st]
theorem Only.sent {i : Nat} {x y : Inst} (h : Only i x y) : y.s.drv.sent = x.s.drv.sent := by rw [h.st]

/-- device `i` is replaced by `d'` -/
theorem only_set (x : Inst) (i : Nat) (d' : Dev) (ac dc : Bool) :
    Only i x { s := { x.s with devs := x.s.devs.set i d' }, addressChanged := ac, devInfoChanged := dc } :=
  ⟨rfl, by simp, fun k hk => by simp [List.getElem?_set_ne (Ne.symm hk)]⟩

theorem libOK_set (x : Inst) (ok : LibOK x) (i : Nat) (d d' : Dev) (ac dc : Bool) (hd : x.s.devs[i]? = some d)
    (hd' : DevOK d')
    (hs : d'.source = d.source ∨ d'.source = 254 ∨ (siblings x.s.devs i).contains d'.source = false) :
    LibOK { s := { x.s with devs := x.s.devs.set i d' }, addressChanged := ac, devInfoChanged := dc } :=
  ⟨⟨ok.send.cm, ok.send.lo, ok.send.ring, ok.send.script, ok.send.dflt, ok.send.nofp⟩,
   devsOK_set ok.devs i hd', sibOK_set ok.sibs i d d' hd hs⟩

/-! ## IsAddressClaimStarted -/

theorem isACS_name (f : Flavor) (now : Nat) (d : Dev) : (isAddressClaimStarted f now d).1.name = d.name := by
  unfold isAddressClaimStarted
  split
  · split <;> rfl
  · rfl

theorem isACS_source (f : Flavor) (now : Nat) (d : Dev) : (isAddressClaimStarted f now d).1.source = d.source := by
  unfold isAddressClaimStarted
  split
  · split <;> rfl
  · rfl

theorem isACS_devOK (f : Flavor) (now : Nat) (d : Dev) (h : DevOK d) : DevOK (isAddressClaimStarted f now d).1 := by
  unfold isAddressClaimStarted
  split
  · split
    · refine ⟨h.1, h.2.1, fun hs => ?_⟩
      have hs' : d.source ≤ 251 := hs
      show (if d.source > 0 then d.source - 1 else Gen.maxCanBusAddress) ≤ 251
      split
      · omega
      · exact Nat.le_refl _
    · exact h
  · exact h

theorem bumpInstance_lt (name : Nat) (h : name < 2^64) : bumpInstance name < 2^64 := by
  unfold bumpInstance
  simp only [Nat.shiftRight_eq_div_pow]
  omega

/-! ## announcing device `i` after a single-device update -/

theorem announce_start (x x1 : Inst) (i : Nat) (d1 : Dev) (ac dc : Bool) (h : Only i x x1) (ok1 : LibOK x1)
    (ho : x1.s.openState = 3) (hd : x1.s.devs[i]? = some d1) :
    LibOK { s := startAddressClaim x1.s i, addressChanged := ac, devInfoChanged := dc } ∧
    Ann (fun k => k = i) None_ x { s := startAddressClaim x1.s i, addressChanged := ac, devInfoChanged := dc } := by
  have dok := ok1.dev hd
  rw [startAddressClaim_spec x1.s ok1.send ho i d1 hd dok.src_lt]
  obtain ⟨hlen, _⟩ := List.getElem?_eq_some_iff.mp hd
  constructor
  · exact ⟨⟨ok1.send.cm, ok1.send.lo, ok1.send.ring, ok1.send.script, ok1.send.dflt, ok1.send.nofp⟩,
      devsOK_set ok1.devs i ⟨dok.1, dok.2.1, dok.2.2⟩, sibOK_set ok1.sibs i d1 _ hd (Or.inl rfl)⟩
  · refine ⟨[claimFrameL d1], by simp [h.sent], by simp [h.len], by simp [h.openState], fun k d' hk => ?_⟩
    by_cases hki : k = i
    · subst hki
      simp only [List.getElem?_set_self hlen, Option.some.injEq] at hk
      left; rw [← hk]; simp [claimFrameL]
    · right
      simp only [List.getElem?_set_ne (Ne.symm hki)] at hk
      rw [h.other k hki] at hk
      exact ⟨hki, d', hk, rfl, rfl, fun _ h => h⟩

theorem announce_send (x : Inst) (i : Nat) (d : Dev) (ok : LibOK x) (hd : x.s.devs[i]? = some d) :
    LibOK { x with s := sendClaim x.s i } ∧ Ann (fun k => k = i) None_ x { x with s := sendClaim x.s i } := by
  have dok := ok.dev hd
  rw [sendClaim_spec x.s ok.send i d hd dok.src_lt]
  obtain ⟨hlen, _⟩ := List.getElem?_eq_some_iff.mp hd
  constructor
  · exact ⟨⟨ok.send.cm, ok.send.lo, ok.send.ring, ok.send.script, ok.send.dflt, ok.send.nofp⟩,
      devsOK_set ok.devs i (isACS_devOK _ _ d dok), sibOK_set ok.sibs i d _ hd (Or.inl (isACS_source _ _ d))⟩
  · refine ⟨[claimFrameL d], by simp, by simp, rfl, fun k d' hk => ?_⟩
    by_cases hki : k = i
    · subst hki
      simp only [List.getElem?_set_self hlen, Option.some.injEq] at hk
      left; rw [← hk, claimFrameL_congr (isACS_name _ _ d) (isACS_source _ _ d)]; simp
    · right
      simp only [List.getElem?_set_ne (Ne.symm hki)] at hk
      exact ⟨hki, d', hk, rfl, rfl, fun _ h => h⟩

theorem startAddressClaim_none (s : St) (i : Nat) (h : s.devs[i]? = none) : startAddressClaim s i = s := by
  unfold startAddressClaim; split
  · rfl
  · simp [h]

/-! ## GetNextAddress -/

theorem getNextAddress_ok (x : Inst) (ok : LibOK x) (i : Nat) (r : Bool) :
    LibOK (getNextAddress x i r) ∧ Only i x (getNextAddress x i r) := by
  unfold getNextAddress
  cases hd : x.s.devs[i]? with
  | none => exact ⟨ok, Only.refl i x⟩
  | some d =>
    have dok := ok.dev hd
    have so := search_ok r (siblings x.s.devs i) d.source d.endSource dok.2.1 dok.2.2
    simp only [so.done, ↓reduceIte]
    refine ⟨libOK_set x ok i d _ _ _ hd ⟨dok.1, ?_, so.endOK⟩ ?_, only_set x i _ _ _⟩
    · rcases so.addr with h | h
      · exact Or.inr h
      · exact Or.inl h.1
    · rcases so.addr with h | h
      · exact Or.inr (Or.inl h)
      · exact Or.inr (Or.inr h.2)

/-! ## HandleISOAddressClaim -/

theorem loseAddress_ok (x : Inst) (ok : LibOK x) (i : Nat) (d : Dev) (hd : x.s.devs[i]? = some d) (nm : Nat) :
    LibOK (loseAddress x i d nm) ∧ Only i x (loseAddress x i d nm) := by
  have dok := ok.dev hd
  have iok := isACS_devOK x.s.flavor x.s.now d dok
  have isrc := isACS_source x.s.flavor x.s.now d
  unfold loseAddress
  by_cases hn : d.name = nm
  · rw [if_pos hn]
    by_cases hc : (isAddressClaimStarted x.s.flavor x.s.now d).2 = true
    · simp only [hc, ↓reduceIte]
      exact ⟨libOK_set x ok i d _ _ _ hd ⟨bumpInstance_lt d.name dok.1, iok.2.1, iok.2.2⟩ (Or.inl isrc), only_set x i _ _ _⟩
    · simp only [hc, Bool.false_eq_true, ↓reduceIte]
      have ok' := libOK_set x ok i d (isAddressClaimStarted x.s.flavor x.s.now d).1 x.addressChanged x.devInfoChanged hd iok (Or.inl isrc)
      have on' := only_set x i (isAddressClaimStarted x.s.flavor x.s.now d).1 x.addressChanged x.devInfoChanged
      have g := getNextAddress_ok _ ok' i false
      exact ⟨g.1, on'.trans g.2⟩
  · rw [if_neg hn]
    exact getNextAddress_ok x ok i false

/-- unannounced devices of an unchanged instance avoid `A` -/
theorem ann_same (x : Inst) (A : Nat → Prop)
    (h : ∀ (i : Nat) (d : Dev), x.s.devs[i]? = some d → d.source < 252 → ¬ A d.source) : Ann None_ A x x :=
  ⟨[], by simp, rfl, rfl, fun i d' hd => Or.inr ⟨fun h => h, d', hd, rfl, rfl, h i d' hd⟩⟩

/-- if only device `i` was touched and the others do not hold an address in `A`, nothing unannounced holds one -/
theorem Ann.avoid {x x' : Inst} {i : Nat} (A : Nat → Prop) (h : Ann (fun k => k = i) None_ x x')
    (ho : ∀ (k : Nat) (dk : Dev), k ≠ i → x.s.devs[k]? = some dk → dk.source < 252 → ¬ A dk.source) : Ann None_ A x x' := by
  obtain ⟨out, h1, h2, h3, h4⟩ := h
  refine ⟨out, h1, h2, h3, fun k d' hd => ?_⟩
  rcases h4 k d' hd with h | ⟨np, d, hd0, hn, hs, _⟩
  · exact Or.inl h
  · exact Or.inr ⟨fun h => h, d, hd0, hn, hs, fun hl => by rw [← hs] at hl ⊢; exact ho k d np hd0 hl⟩

theorem findSourceDev_none {devs : List Dev} {src : Nat} (h : findSourceDev devs src = none) :
    ∀ (i : Nat) (d : Dev), devs[i]? = some d → d.source < 252 → d.source ≠ src := by
  intro i d hd hl he
  unfold findSourceDev at h
  have hs : src ≤ 253 := by omega
  rw [if_pos hs, List.findIdx?_eq_none_iff] at h
  have := h d (List.mem_of_getElem? hd)
  simp [he] at this

theorem findSourceDev_some {devs : List Dev} {src i : Nat} (h : findSourceDev devs src = some i) :
    ∃ d, devs[i]? = some d ∧ d.source = src := by
  unfold findSourceDev at h
  split at h
  · rw [List.findIdx?_eq_some_iff_getElem] at h
    obtain ⟨hlt, hp, _⟩ := h
    exact ⟨devs[i], List.getElem?_eq_getElem hlt, by simpa using hp⟩
  · cases h

theorem handleClaim_post (x : Inst) (ok : LibOK x) (ho : x.s.openState = 3) (src nm : Nat) :
    LibOK (handleClaim x src nm) ∧ Ann None_ (fun a => a = src) x (handleClaim x src nm) := by
  unfold handleClaim
  by_cases h254 : src = Gen.nullCanBusAddress
  · rw [if_pos h254]
    exact ⟨ok, ann_same x _ (fun i d _ hl he => by rw [h254] at he; unfold Gen.nullCanBusAddress at he; omega)⟩
  · rw [if_neg h254]
    cases hf : findSourceDev x.s.devs src with
    | none => exact ⟨ok, ann_same x _ (findSourceDev_none hf)⟩
    | some i =>
      obtain ⟨d, hd, hsrc⟩ := findSourceDev_some hf
      simp only [hd]
      have hothers : ∀ (k : Nat) (dk : Dev), k ≠ i → x.s.devs[k]? = some dk → dk.source < 252 → ¬ (dk.source = src) := by
        intro k dk hk hdk hl he
        have := ok.sibs k i dk d hk hdk hd (by rw [he, hsrc])
        omega
      by_cases hlt : d.name < nm
      · rw [if_pos hlt]
        have a := announce_send x i d ok hd
        exact ⟨a.1, a.2.avoid _ hothers⟩
      · rw [if_neg hlt]
        have l := loseAddress_ok x ok i d hd nm
        have hlen : i < (loseAddress x i d nm).s.devs.length := by
          rw [l.2.len]; exact (List.getElem?_eq_some_iff.mp hd).1
        have a := announce_start x (loseAddress x i d nm) i _ (loseAddress x i d nm).addressChanged
          (loseAddress x i d nm).devInfoChanged l.2 l.1 (by rw [l.2.openState]; exact ho) (List.getElem?_eq_getElem hlen)
        exact ⟨a.1, a.2.avoid _ hothers⟩

/-! ## commanded address -/

theorem updEnd_le (a : Nat) (h : a ≤ 251) : updEnd a ≤ 251 := by
  unfold updEnd; split
  · omega
  · exact Nat.le_refl _

theorem cmdOne_post (x : Inst) (ok : LibOK x) (ho : x.s.openState = 3) (nm a i : Nat) (ha : a ≤ 251) :
    LibOK (cmdOne x nm a i) ∧ Ann None_ None_ x (cmdOne x nm a i) := by
  unfold cmdOne
  have h255 : ¬ a = 255 := by omega
  rw [if_neg h255]
  cases hd : x.s.devs[i]? with
  | none => exact ⟨ok, Ann.refl x⟩
  | some d =>
    simp only
    by_cases hc : d.name = nm ∧ d.source ≠ a
    · rw [if_pos hc]
      by_cases hsib : (siblings x.s.devs i).contains a = true
      · rw [if_pos hsib]; exact ⟨ok, Ann.refl x⟩
      · rw [if_neg hsib]
        have hsib' : (siblings x.s.devs i).contains a = false := by simpa using hsib
        have dok := ok.dev hd
        have ok1 := libOK_set x ok i d { d with source := a, endSource := updEnd a } x.addressChanged x.devInfoChanged hd
          ⟨dok.1, Or.inl ha, fun _ => updEnd_le a ha⟩ (Or.inr (Or.inr hsib'))
        have on1 := only_set x i { d with source := a, endSource := updEnd a } x.addressChanged x.devInfoChanged
        have hlen := (List.getElem?_eq_some_iff.mp hd).1
        have a1 := announce_start x _ i { d with source := a, endSource := updEnd a } true x.devInfoChanged on1 ok1 ho
          (by simp [List.getElem?_set_self hlen])
        exact ⟨a1.1, a1.2.mono (fun _ h => h.elim) (fun _ h => h)⟩
    · rw [if_neg hc]; exact ⟨ok, Ann.refl x⟩

/-- a fold of steps that each keep `LibOK` and announce what they change -/
theorem foldl_post (f : Inst → Nat → Inst)
    (hf : ∀ x i, LibOK x → x.s.openState = 3 → LibOK (f x i) ∧ Ann None_ None_ x (f x i)) :
    ∀ (l : List Nat) (x : Inst), LibOK x → x.s.openState = 3 →
      LibOK (l.foldl f x) ∧ Ann None_ None_ x (l.foldl f x)
  | [], x, ok, _ => ⟨ok, Ann.refl x⟩
  | i :: t, x, ok, ho => by
    simp only [List.foldl_cons]
    have h1 := hf x i ok ho
    have ho1 : (f x i).s.openState = 3 := by obtain ⟨_, _, _, h3, _⟩ := h1.2; rw [h3]; exact ho
    have h2 := foldl_post f hf t (f x i) h1.1 ho1
    exact ⟨h2.1, (h1.2.trans h2.2).mono (fun _ h => h.elim) (fun _ h => h.elim)⟩

theorem handleCommandedAddress_post (x : Inst) (ok : LibOK x) (ho : x.s.openState = 3) (dst nm a : Nat) :
    LibOK (handleCommandedAddress x dst nm a) ∧ Ann None_ None_ x (handleCommandedAddress x dst nm a) := by
  unfold handleCommandedAddress
  simp only
  by_cases h1 : dst ≠ 255 ∧ (findSourceDev x.s.devs dst).isNone = true
  · rw [if_pos h1]; exact ⟨ok, Ann.refl x⟩
  · rw [if_neg h1]
    by_cases h2 : a ≥ 252
    · rw [if_pos h2]; exact ⟨ok, Ann.refl x⟩
    · rw [if_neg h2]
      have ha : a ≤ 251 := by omega
      cases findSourceDev x.s.devs dst with
      | none => exact foldl_post (fun y i => cmdOne y nm a i) (fun y i oky hoy => cmdOne_post y oky hoy nm a i ha) _ x ok ho
      | some i => exact cmdOne_post x ok ho nm a i ha

/-! ## StartAddressClaim() for all devices -/

theorem startOne_post (x : Inst) (ok : LibOK x) (ho : x.s.openState = 3) (i : Nat) :
    LibOK (startOne x i) ∧ Ann (fun k => k = i) None_ x (startOne x i) := by
  unfold startOne
  cases hd : x.s.devs[i]? with
  | none =>
    simp only [startAddressClaim_none x.s i hd]
    refine ⟨ok, [], by simp, rfl, rfl, fun k d' hk => Or.inr ⟨fun hki => ?_, d', hk, rfl, rfl, fun _ h => h⟩⟩
    rw [hki, hd] at hk; cases hk
  | some d =>
    simp only
    have hlen := (List.getElem?_eq_some_iff.mp hd).1
    have key : ∀ x1 : Inst, LibOK x1 → Only i x x1 →
        LibOK { x1 with s := startAddressClaim x1.s i } ∧ Ann (fun k => k = i) None_ x { x1 with s := startAddressClaim x1.s i } := by
      intro x1 ok1 on1
      have hl1 : i < x1.s.devs.length := by rw [on1.len]; exact hlen
      exact announce_start x x1 i _ x1.addressChanged x1.devInfoChanged on1 ok1 (by rw [on1.openState]; exact ho)
        (List.getElem?_eq_getElem hl1)
    by_cases h254 : d.source = Gen.nullCanBusAddress
    · rw [if_pos h254]
      have g := getNextAddress_ok x ok i true
      exact key _ g.1 g.2
    · rw [if_neg h254]
      exact key x ok (Only.refl i x)

theorem foldl_startOne : ∀ (l : List Nat) (x : Inst), LibOK x → x.s.openState = 3 →
    LibOK (l.foldl startOne x) ∧ Ann (fun k => k ∈ l) None_ x (l.foldl startOne x)
  | [], x, ok, _ => ⟨ok, (Ann.refl x).mono (fun _ h => by simp at h) (fun _ h => h)⟩
  | i :: t, x, ok, ho => by
    simp only [List.foldl_cons]
    have h1 := startOne_post x ok ho i
    have ho1 : (startOne x i).s.openState = 3 := by obtain ⟨_, _, _, h3, _⟩ := h1.2; rw [h3]; exact ho
    have h2 := foldl_startOne t (startOne x i) h1.1 ho1
    refine ⟨h2.1, (h1.2.trans h2.2).mono (fun k h => ?_) (fun _ h => h.elim)⟩
    rcases List.mem_cons.mp h with h | h
    · exact Or.inl h
    · exact Or.inr h

/-- every device is announced -/
def AllAnn (x x' : Inst) : Prop :=
  ∃ out, x'.s.drv.sent = x.s.drv.sent ++ out ∧ ∀ (i : Nat) (d' : Dev), x'.s.devs[i]? = some d' → claimFrameL d' ∈ out

theorem startAddressClaimAll_post (x : Inst) (ok : LibOK x) (ho : x.s.openState = 3) :
    LibOK (Claim.startAddressClaimAll x) ∧ (Claim.startAddressClaimAll x).s.openState = 3 ∧
      AllAnn x (Claim.startAddressClaimAll x) := by
  unfold Claim.startAddressClaimAll
  have h := foldl_startOne (List.range x.s.devs.length) x ok ho
  obtain ⟨out, h1, h2, h3, h4⟩ := h.2
  refine ⟨h.1, by rw [h3]; exact ho, out, h1, fun i d' hd => ?_⟩
  rcases h4 i d' hd with h | ⟨np, _⟩
  · exact h
  · exfalso; apply np
    have := (List.getElem?_eq_some_iff.mp hd).1
    rw [h2] at this
    exact List.mem_range.mpr this

/-! ## the heartbeat pass (claim timers expire) -/

theorem heartbeatPass_post (x : Inst) (ok : LibOK x) :
    LibOK (heartbeatPass x) ∧ Ann None_ None_ x (heartbeatPass x) := by
  unfold heartbeatPass
  rw [if_pos ok.send.cm]
  constructor
  · refine ⟨⟨ok.send.cm, ok.send.lo, ok.send.ring, ok.send.script, ok.send.dflt, ok.send.nofp⟩, ?_, ?_⟩
    · intro d hd
      obtain ⟨d0, hd0, rfl⟩ := List.mem_map.mp hd
      exact isACS_devOK _ _ d0 (ok.devs d0 hd0)
    · intro i j di dj hij hi hj he
      simp only [List.getElem?_map, Option.map_eq_some_iff] at hi hj
      obtain ⟨di0, hi0, rfl⟩ := hi
      obtain ⟨dj0, hj0, rfl⟩ := hj
      rw [isACS_source] at he ⊢
      rw [isACS_source] at he
      exact ok.sibs i j di0 dj0 hij hi0 hj0 he
  · refine ⟨[], by simp, by simp, rfl, fun i d' hd => Or.inr ⟨fun h => h, ?_⟩⟩
    simp only [List.getElem?_map, Option.map_eq_some_iff] at hd
    obtain ⟨d0, hd0, rfl⟩ := hd
    exact ⟨d0, hd0, (isACS_name _ _ d0).symm, (isACS_source _ _ d0).symm, fun _ h => h⟩

/-! ## receive path and ParseMessages -/

/-- the address consumed by a received item -/
def Aof : Option Rx → Nat → Prop
  | some (.frame f) => fun a => ∃ c, libDecode f = some c ∧ a = c.2
  | _ => None_

theorem rxOne_post (x : Inst) (ok : LibOK x) (ho : x.s.openState = 3) (r : Rx) :
    LibOK (rxOne x r) ∧ Ann None_ (Aof (some r)) x (rxOne x r) := by
  cases r with
  | frame f =>
    simp only [rxOne, rxFrame_eq]
    cases hdec : libDecode f with
    | none =>
      refine ⟨ok, ann_same x _ (fun i d _ _ h => ?_)⟩
      obtain ⟨c, hc, _⟩ := h; rw [hdec] at hc; cases hc
    | some c =>
      have h := handleClaim_post x ok ho c.2 c.1
      refine ⟨h.1, h.2.mono (fun _ h => h) (fun a ha => ?_)⟩
      obtain ⟨c', hc', rfl⟩ := ha
      rw [hdec] at hc'; cases hc'; rfl
  | cmd dst nm a =>
    simp only [rxOne]
    have h := handleCommandedAddress_post x ok ho dst nm a
    exact ⟨h.1, h.2.mono (fun _ h => h) (fun _ h => h.elim)⟩

theorem parse_open (x : Inst) (ho : x.s.openState = 3) (ok : SendOK x.s) (rx : List Rx) :
    parse x rx = heartbeatPass (rx.foldl rxOne x) := by
  unfold parse
  have e : (if x.s.openState = 3 then x else Claim.openStep x) = x := if_pos ho
  simp only [e]
  rw [if_neg (fun h => h ho), sendFrames_empty _ _ ok.ring]
  show heartbeatPass (if x.s.claimMode = true then rx.foldl rxOne x else x) = _
  rw [if_pos ok.cm]

theorem parse_open_post (x : Inst) (ok : LibOK x) (ho : x.s.openState = 3) (r : Option Rx) :
    LibOK (parse x r.toList) ∧ Ann None_ (Aof r) x (parse x r.toList) := by
  rw [parse_open x ho ok.send]
  cases r with
  | none =>
    simp only [Option.toList, List.foldl_nil]
    have h := heartbeatPass_post x ok
    exact ⟨h.1, h.2.mono (fun _ h => h) (fun _ h => by simp only [Aof] at h; exact h.elim)⟩
  | some r =>
    simp only [Option.toList, List.foldl_cons, List.foldl_nil]
    have h1 := rxOne_post x ok ho r
    have h2 := heartbeatPass_post (rxOne x r) h1.1
    exact ⟨h2.1, (h1.2.trans h2.2).mono (fun _ h => h.elim) (fun a h => Or.inl h)⟩

/-! ## opening -/

theorem sendOpenStep_wait (s : St) (h3 : s.openState ≠ 3)
    (hn : ¬ (s.openState = 2 ∧ s.openSched.isTime s.flavor s.now = true)) :
    ∃ os sch, Send.openStep s = { s with openState := os, openSched := sch } ∧ os ≠ 3 := by
  unfold Send.openStep
  by_cases h0 : s.openState = 0
  · simp only [h0, ↓reduceIte]
    by_cases ht : s.openSched.isTime s.flavor s.now = true
    · by_cases hc : s.canOpenOk = true
      · exact ⟨2, Sched.fromNow s.flavor s.now 200, by simp [ht, hc], by omega⟩
      · exact ⟨1, Sched.fromNow s.flavor s.now 1000, by simp [ht, hc], by omega⟩
    · exact ⟨1, s.openSched, by simp [ht], by omega⟩
  · simp only [h0, ↓reduceIte]
    by_cases h1 : s.openState = 1
    · simp only [h1, ↓reduceIte]
      by_cases ht : s.openSched.isTime s.flavor s.now = true
      · by_cases hc : s.canOpenOk = true
        · exact ⟨2, Sched.fromNow s.flavor s.now 200, by simp [ht, hc], by omega⟩
        · exact ⟨1, Sched.fromNow s.flavor s.now 1000, by simp [ht, hc], by omega⟩
      · refine ⟨1, s.openSched, ?_, by omega⟩
        simp only [ht, Bool.false_eq_true, not_false_eq_true, ↓reduceIte]
        cases s; simp_all
    · simp only [h1, ↓reduceIte, hn]
      refine ⟨s.openState, s.openSched, ?_, h3⟩
      cases s; rfl

theorem libOK_of_fields (x y : Inst) (ok : LibOK x) (hcm : y.s.claimMode = x.s.claimMode) (hlo : y.s.listenOnly = x.s.listenOnly)
    (hr : y.s.ring = x.s.ring) (hs : y.s.drv.script = x.s.drv.script) (hdf : y.s.drv.dflt = x.s.drv.dflt)
    (hl : y.s.lists = x.s.lists) (hd : y.s.devs = x.s.devs) : LibOK y :=
  ⟨⟨by rw [hcm]; exact ok.send.cm, by rw [hlo]; exact ok.send.lo, by rw [hr]; exact ok.send.ring,
    by rw [hs]; exact ok.send.script, by rw [hdf]; exact ok.send.dflt, by rw [hl]; exact ok.send.nofp⟩,
   by rw [hd]; exact ok.devs, by rw [hd]; exact ok.sibs⟩

/-- `Open()` on an instance that is not open: it stays closed and silent, or it opens and announces every device -/
theorem openStep_post (x : Inst) (ok : LibOK x) (hno : x.s.openState ≠ 3) :
    LibOK (Claim.openStep x) ∧
    (((Claim.openStep x).s.openState ≠ 3 ∧ (Claim.openStep x).s.drv.sent = x.s.drv.sent) ∨
     ((Claim.openStep x).s.openState = 3 ∧ AllAnn x (Claim.openStep x))) := by
  unfold Claim.openStep
  by_cases h0 : x.s.openState = 0
  · have hc : ¬ ((if x.s.openState = 0 then { x.s with openState := 1 } else x.s).openState = 2 ∧
        (if x.s.openState = 0 then { x.s with openState := 1 } else x.s).openSched.isTime
          (if x.s.openState = 0 then { x.s with openState := 1 } else x.s).flavor
          (if x.s.openState = 0 then { x.s with openState := 1 } else x.s).now = true) := by
      simp [h0]
    simp only [hc, ↓reduceIte]
    obtain ⟨os, sch, he, hos⟩ := sendOpenStep_wait x.s hno (by simp [h0])
    rw [he]
    exact ⟨libOK_of_fields x _ ok rfl rfl rfl rfl rfl rfl rfl, Or.inl ⟨hos, rfl⟩⟩
  · simp only [h0, ↓reduceIte]
    by_cases hc : x.s.openState = 2 ∧ x.s.openSched.isTime x.s.flavor x.s.now = true
    · rw [if_pos hc]
      have oko : LibOK { x with s := { x.s with openState := 3 } } := libOK_of_fields x _ ok rfl rfl rfl rfl rfl rfl rfl
      have h := startAddressClaimAll_post _ oko rfl
      exact ⟨h.1, Or.inr ⟨h.2.1, h.2.2⟩⟩
    · rw [if_neg hc]
      obtain ⟨os, sch, he, hos⟩ := sendOpenStep_wait x.s hno hc
      rw [he]
      exact ⟨libOK_of_fields x _ ok rfl rfl rfl rfl rfl rfl rfl, Or.inl ⟨hos, rfl⟩⟩

theorem parse_closed (x : Inst) (hno : x.s.openState ≠ 3) (ok : SendOK (Claim.openStep x).s) (rx : List Rx) :
    parse x rx = if (Claim.openStep x).s.openState ≠ 3 then Claim.openStep x
                 else heartbeatPass (rx.foldl rxOne (Claim.openStep x)) := by
  unfold parse
  simp only [hno, ↓reduceIte]
  by_cases h : (Claim.openStep x).s.openState = 3
  · have hn : ¬ ((Claim.openStep x).s.openState ≠ 3) := fun hh => hh h
    simp only [hn, ↓reduceIte]
    rw [sendFrames_empty _ _ ok.ring]
    show heartbeatPass (if (Claim.openStep x).s.claimMode = true then rx.foldl rxOne (Claim.openStep x) else Claim.openStep x) = _
    rw [if_pos ok.cm]
  · rw [if_pos h, if_pos h]

end N2k.Bus
