"""Structural + behavioural obligation of C13: time values are compared only through the primitives of N2kTimer.h, and the
primitives behave as Basic/Time.lean and Model/Heartbeat.lean say.

(1) OUTSIDE the primitives (every src/*.cpp, src/*.h except N2kTimer.h / N2kTimer.cpp) the translator finds every SITE where a
time value is an operand of a relational operator (< > <= >= and == != against anything that is not itself a time value; an (in)equality test between two stamps is
origin independent and only counted), of a binary + or - (also += -=), or is assigned an integer
literal (an absolute stamp). A time value is: a clock read N2kMillis() / N2kMillis64() / millis(), a call of a getter whose name
is time-like, an identifier declared with an integer type and a time-like name, or a local initialised / assigned from one of
those (its class is inherited: `const unsigned long CurTime=N2kMillis()` is the clock, `SlotMsgTime=...MsgTime` is MsgTime).
A site is keyed SEMANTICALLY by (file, enclosing function, operator class, set of time classes involved) - not by its text, line
or the names of locals - and must be on the reviewed whitelist time_sites_whitelist.json. A clock read that is only stored or
passed on (argument of a primitive, right-hand side of an assignment) is not a site; it is counted in the statistics.
A site that is not on the whitelist (a new raw comparison, subtraction or constant on a time value) raises = broken obligation.

(2) The primitives themselves may change form freely. They are EXTRACTED BY EXECUTION: N2kTimer.h / N2kTimer.cpp are compiled in
both timer flavours (64-bit scheduler with clock_gettime interposed, 32-bit scheduler with a harness millis()) and
N2kIsTimeBefore, N2kHasElapsed, tN2kScheduler::FromNow/IsTime, tN2kSyncScheduler::UpdateNextTime/IsTime/SetSyncOffset and the
N2kMillis64 roll counter are evaluated on a grid around 0, 2^31, 2^32, 2^64 and the sentinel plus random points from a fixed
seed. The table is written to lean/N2k/Gen/TimePrimitives.lean together with theorems stating that the Lean definitions give
exactly these values, proved by kernel evaluation (`decide`); the translator also compares the table with a Python copy of the
definitions only to print a readable message when they differ (the Lean kernel is the judge)."""
import os, re, json, glob, subprocess, tempfile, shutil, random

HERE = os.path.dirname(os.path.abspath(__file__))
WHITELIST = os.path.join(HERE, 'time_sites_whitelist.json')
PRIMITIVE_FILES = ('N2kTimer.h', 'N2kTimer.cpp')

CLOCKS = ('N2kMillis', 'N2kMillis64', 'millis')
INT_TYPES = r'(?:unsigned\s+long|uint32_t|uint64_t|tN2kSchedulerTime)'
TIMEY = re.compile(r'(Time|Millis|Requested$|LastRead|SyncOffset|Timeout|^Now$|^now$|Elapsed|^Start$|^T1$|^T2$|Deadline)')
NOT_TIMEY = re.compile(r'^n[A-Z]|^N2kDL_|^Max_|^N2k.*Timeout$|^Max.*Time$')
KEYWORDS = {'if', 'while', 'for', 'switch', 'return', 'sizeof', 'catch', 'else', 'do', 'new', 'delete', 'case', 'const', 'static',
            'inline', 'virtual', 'bool', 'int', 'long', 'unsigned', 'char', 'void', 'double', 'float', 'struct', 'class', 'typename'}
TOKEN = re.compile(r'\s*(0[xX][0-9a-fA-F]+[uUlL]*|\d+\.?\d*[uUlLfF]*|[A-Za-z_]\w*|->|<<=|>>=|<<|>>|<=|>=|==|!=|&&|\|\||\+\+|--|\+=|-=|\*=|/=|::|.)', re.S)
REL = {'<', '>', '<=', '>=', '==', '!='}
ARITH = {'+', '-', '+=', '-='}


def strip_comments(text):
    def repl(m):
        s = m.group(0)
        if s.startswith('/'):
            return re.sub(r'[^\n]', ' ', s)
        return '""' if s.startswith('"') else "' '"
    return re.sub(r'//[^\n]*|/\*.*?\*/|"(?:\\.|[^"\\])*"|\'(?:\\.|[^\'\\])\'', repl, text, flags=re.S)


def strip_preproc(text):
    return '\n'.join('' if l.lstrip().startswith('#') else l for l in re.sub(r'\\\n', ' ', text).split('\n'))


def tokens(text):
    return [m.group(1) for m in TOKEN.finditer(text) if m.group(1).strip()]


def is_ident(t):
    return bool(re.match(r'[A-Za-z_]\w*$', t))


def timey(name):
    return bool(TIMEY.search(name)) and not NOT_TIMEY.search(name)


def functions(toks):
    """yield (function name, token list of the body) for every function body; nested class bodies are descended into"""
    out = []

    def block_end(i):      # toks[i] == '{' -> index of matching '}'
        d = 0
        while i < len(toks):
            if toks[i] == '{':
                d += 1
            elif toks[i] == '}':
                d -= 1
                if d == 0:
                    return i
            i += 1
        return len(toks) - 1

    def header_name(i):    # toks[i] == '{'; look back for `name ( ... ) [const] [: init-list]`
        j = i - 1
        # skip constructor initialiser list and trailing qualifiers
        depth = 0
        k = j
        while k >= 0 and not (toks[k] in (';', '}', '{') and depth == 0):
            if toks[k] == ')':
                depth += 1
            elif toks[k] == '(':
                depth -= 1
            k -= 1
        seg = toks[k + 1:i]
        if not seg:
            return None, 'block'
        if '(' not in seg and any(k in seg for k in ('class', 'struct', 'namespace', 'enum', 'union', 'extern')):
            return None, 'scope'
        if '=' in seg and '(' not in seg[:seg.index('=')]:
            return None, 'init'          # array / struct initialiser
        # first '(' at depth 0 preceded by an identifier that is not a keyword
        d = 0
        for p, t in enumerate(seg):
            if t == '(' and d == 0 and p > 0 and is_ident(seg[p - 1]) and seg[p - 1] not in KEYWORDS:
                return seg[p - 1], 'func'
            if t == '(':
                d += 1
            elif t == ')':
                d -= 1
        return None, 'block'

    def walk(lo, hi, infunc):
        i = lo
        while i < hi:
            if toks[i] == '{':
                e = block_end(i)
                name, kind = header_name(i)
                if infunc is None and kind == 'func':
                    out.append((name, toks[i + 1:e]))
                elif infunc is None and kind == 'scope':
                    walk(i + 1, e, None)
                i = e + 1
            else:
                i += 1
    walk(0, len(toks), None)
    return out


def left_operand(toks, i):
    """token span of the postfix expression ending at toks[i-1]"""
    j = i - 1
    while j >= 0:
        t = toks[j]
        if t in (')', ']'):
            close, open_ = t, '(' if t == ')' else '['
            d = 0
            while j >= 0:
                if toks[j] == close:
                    d += 1
                elif toks[j] == open_:
                    d -= 1
                    if d == 0:
                        break
                j -= 1
            j -= 1
            # a call / index: continue with the callee; a parenthesised expression: stop unless preceded by an identifier
            if j >= 0 and (is_ident(toks[j]) and toks[j] not in KEYWORDS):
                continue
            if j >= 0 and toks[j] in (')', ']'):
                continue
            break
        if is_ident(t) and t not in KEYWORDS or re.match(r'\d', t):
            j -= 1
            if j >= 0 and toks[j] in ('.', '->', '::'):
                j -= 1
                continue
            break
        break
    return toks[j + 1:i]


def right_operand(toks, i):
    j = i + 1
    while j < len(toks) and toks[j] in ('!', '~', '-', '+', '*', '&'):
        j += 1
    start = j
    while j < len(toks):
        t = toks[j]
        if t in ('(', '['):
            close = ')' if t == '(' else ']'
            d = 0
            while j < len(toks):
                if toks[j] == t:
                    d += 1
                elif toks[j] == close:
                    d -= 1
                    if d == 0:
                        break
                j += 1
            j += 1
            if j < len(toks) and (toks[j] in ('.', '->', '(', '[') or (toks[j - 1] == ')' and is_ident(toks[j]) and start == j - 0)):
                if toks[j] in ('.', '->'):
                    j += 1
                continue
            break
        if is_ident(t) and t not in KEYWORDS or re.match(r'\d', t):
            j += 1
            if j < len(toks) and toks[j] in ('.', '->', '::'):
                j += 1
                continue
            if j < len(toks) and toks[j] in ('(', '['):
                continue
            break
        break
    return toks[start:j]


class Classes:
    """time classes of identifiers inside one function: fields/parameters are their own class, locals inherit"""
    def __init__(self, globals_, body):
        self.map = {g: {g} for g in globals_}
        # locals: declarations `type name = expr` / assignments `name = expr` from a time value
        changed = True
        rounds = 0
        while changed and rounds < 6:
            changed = False
            rounds += 1
            for i, t in enumerate(body):
                if t == '=' and i > 0 and is_ident(body[i - 1]) and (i < 2 or body[i - 2] not in ('.', '->')):
                    name = body[i - 1]
                    rhs = right_operand(body, i)
                    # only a plain copy: the right-hand side is one postfix expression followed by ; , or )
                    after = body[i + 1 + len(rhs)] if i + 1 + len(rhs) < len(body) else ';'
                    if after not in (';', ',', ')'):
                        continue
                    cl = self.of(rhs)
                    if cl and not cl <= self.map.get(name, set()):
                        declared_local = name not in globals_
                        if declared_local or timey(name):
                            self.map[name] = self.map.get(name, set()) | cl if declared_local else self.map.get(name, {name}) | set()
                            if declared_local:
                                changed = True

    def of(self, operand):
        """set of time classes of an operand token list (empty = not a time value)"""
        cl = set()
        n = len(operand)
        for p, t in enumerate(operand):
            if not is_ident(t):
                continue
            nxt = operand[p + 1] if p + 1 < n else ''
            if t in CLOCKS and nxt == '(':
                cl.add('clock')
            elif nxt == '(':
                if timey(t) and t.startswith('Get'):
                    cl.add(t[3:])
            elif nxt in ('.', '->', '::'):
                continue                      # object / namespace part of a chain
            elif t in self.map:
                cl |= self.map[t]
        return cl


def global_time_identifiers(texts):
    ids = set()
    decl = re.compile(r'\b' + INT_TYPES + r'\s+((?:\w+\s*(?:=[^,;()]*)?,\s*)*\w+)\s*(?:=[^;()]*)?;')
    par = re.compile(r'\b' + INT_TYPES + r'\s+(\w+)\s*(?:=[^,)]*)?[,)]')
    for t in texts.values():
        for m in decl.finditer(t):
            for part in m.group(1).split(','):
                name = part.split('=')[0].strip()
                if name and timey(name):
                    ids.add(name)
        for m in par.finditer(t):
            if timey(m.group(1)):
                ids.add(m.group(1))
    return ids


def scan(src):
    files = sorted(glob.glob(os.path.join(src, '*.cpp')) + glob.glob(os.path.join(src, '*.h')))
    texts = {os.path.basename(f): strip_preproc(strip_comments(open(f, errors='replace').read())) for f in files}
    gids = global_time_identifiers(texts)
    sites, reads, stored_reads = [], 0, 0
    equal_tests = [0]
    for fn, text in texts.items():
        toks = tokens(text)
        nreads = sum(1 for i, t in enumerate(toks) if t in CLOCKS and i + 1 < len(toks) and toks[i + 1] == '(' and (i == 0 or toks[i - 1] not in ('uint32_t', 'uint64_t', 'long')))
        reads += nreads
        if fn in PRIMITIVE_FILES:
            continue
        direct = 0
        for fname, body in functions(toks):
            cls = Classes(gids, body)
            for i, t in enumerate(body):
                if i == 0 or i + 1 >= len(body):
                    continue
                prev = body[i - 1]
                binary = is_ident(prev) and prev not in KEYWORDS or prev in (')', ']') or re.match(r'\d', prev)
                if t in REL or t in ARITH:
                    if not binary:
                        continue
                    lo, ro = left_operand(body, i), right_operand(body, i)
                    cl = cls.of(lo) | cls.of(ro)
                    if t in ('==', '!=') and cls.of(lo) and cls.of(ro):
                        equal_tests[0] += 1        # (in)equality of two stamps is origin independent: counted, not a site
                        continue
                    if cl:
                        sites.append((fn, fname, 'rel' if t in REL else 'arith', tuple(sorted(cl))))
                        if 'clock' in cls.of([x for x in lo + ro if x in CLOCKS or x == '(']):
                            direct += 1
                elif t == '=' and binary and re.match(r'(0[xX][0-9a-fA-F]+|\d+)[uUlL]*$', body[i + 1]) and (i + 2 >= len(body) or body[i + 2] in (';', ',', ')')):
                    lo = left_operand(body, i)
                    cl = cls.of(lo)
                    # only declared time identifiers (fields, parameters, time-named locals): a stamp set to a constant
                    if cl and lo and lo[-1] in cls.map:
                        sites.append((fn, fname, 'const', tuple(sorted(cl))))
        stored_reads += max(nreads - direct, 0)
    return sites, {'clock_reads': reads, 'clock_reads_stored_or_passed_outside_primitives': stored_reads, 'equality_tests_between_two_time_values': equal_tests[0], 'time_identifiers': sorted(gids)}


def key(s):
    return '%s|%s|%s|%s' % (s[0], s[1], s[2], '+'.join(s[3]))


# ------------------------------------------------------------------------------------------- primitives by execution

EXTRACT_CPP = r'''
#include <cstdio>
#include <cstdint>
#include <cstdlib>
#include <time.h>
static uint64_t g_now = 0;
#ifdef T32
extern "C" uint32_t millis() { return (uint32_t)g_now; }
#else
extern "C" int clock_gettime(clockid_t, struct timespec *ts) { ts->tv_sec = (time_t)(g_now / 1000); ts->tv_nsec = (long)(g_now % 1000) * 1000000L; return 0; }
#endif
#include "N2kTimer.h"
struct S : public tN2kScheduler { unsigned long long raw() const { return (unsigned long long)NextTime; } void set(unsigned long long v) { NextTime = (tN2kSchedulerTime)v; } };
struct Y : public tN2kSyncScheduler { static void so(uint64_t v) { SyncOffset = v; } static unsigned long long getso() { return SyncOffset; } void set(uint64_t n, uint32_t o, uint32_t p) { NextTime = n; Offset = o; Period = p; } };
int main(int argc, char **argv) {
  FILE *f = fopen(argv[1], "r"); if (!f) return 2;
  int kind; unsigned long long a, b, c, d;
  while (fscanf(f, "%d %llu %llu %llu %llu", &kind, &a, &b, &c, &d) == 5) {
    unsigned long long r = 0;
    switch (kind) {
      case 0: r = N2kIsTimeBefore((uint32_t)a, (uint32_t)b); break;
      case 1: r = N2kHasElapsed((uint32_t)a, (uint32_t)b, (uint32_t)c); break;
      case 2: case 4: { S s; g_now = a; s.FromNow((uint32_t)b); r = s.raw(); break; }
      case 3: case 5: { S s; s.set(a); g_now = b; r = s.IsTime(); break; }
      case 6: { Y y; Y::so(a); y.set(0, (uint32_t)b, (uint32_t)c); g_now = d; y.UpdateNextTime(); r = y.GetNextTime(); break; }
      case 7: { Y y; y.set(a, 0, 1); g_now = b; r = y.IsTime(); break; }
      case 8: { g_now = a; Y::SetSyncOffset(); r = Y::getso(); break; }
      case 9: { g_now = a; r = N2kMillis64(); break; }
      default: continue;
    }
    printf("%d %llu %llu %llu %llu %llu\n", kind, a, b, c, d, r);
  }
  return 0;
}
'''

M32, M64, I32 = 1 << 32, 1 << 64, (1 << 31) - 1


def grid_points():
    rnd = random.Random(20261001)
    G = [0, 1, 2, 99, 100, 101, 1000, I32 - 1, I32, I32 + 1, I32 + 2, I32 - 100, I32 + 100, M32 - 1001, M32 - 251, M32 - 201, M32 - 101, M32 - 100, M32 - 99,
         M32 - 2, M32 - 1]
    Gs = [0, 1, 100, 1000, I32 - 1, I32, I32 + 1, I32 + 2, M32 - 1001, M32 - 101, M32 - 100, M32 - 2, M32 - 1]
    E = [0, 1, 100, 250, 1000, I32 - 1, I32, I32 + 1, I32 + 2, M32 - 1]
    D = [0, 1, 50, 100, 200, 250, 1000, 2737, I32, M32 - 1]
    p32, p64 = [], []
    for a in G:
        for b in G:
            p32.append((0, a, b, 0, 0)); p32.append((3, a, b, 0, 0))
    for s in Gs:
        for e in E:
            for n in Gs:
                p32.append((1, s, e, n, 0))
    for c in G:
        for d in D:
            p32.append((2, c, d, 0, 0))
    for _ in range(600):
        a, b, c = rnd.randrange(M32), rnd.randrange(M32), rnd.randrange(M32)
        p32 += [(0, a, b, 0, 0), (1, a, rnd.choice(E + [rnd.randrange(M32)]), c, 0), (3, rnd.choice([a, M32 - 1]), b, 0, 0), (2, a, rnd.choice(D + [rnd.randrange(M32)]), 0, 0)]
    # the roll counter: one monotone-with-wraps sequence of millis() values (function-static state, evaluated in order)
    t, roll = 0, []
    for i in range(300):
        t += rnd.choice([0, 1, 1, 7, 1000, I32, I32 + 1, M32 - 1, rnd.randrange(M32)])
        roll.append((9, t % M32, 0, 0, 0))
    G64 = [0, 1, 1000, M32 - 1, M32, M32 + 1, 1 << 40, (1 << 63), M64 - 1001, M64 - 2, M64 - 1]
    for c in G64:
        for d in D:
            p64.append((4, c, d, 0, 0))
        for n in G64:
            p64.append((5, c, n, 0, 0)); p64.append((7, c, n, 0, 0))
        p64.append((8, c, 0, 0, 0))
    for so in [0, 1000, M32 - 5, 1 << 33, (1 << 40) + 17]:
        for off in [0, 1, 500, 10000, M32 - 1]:
            for per in [0, 1, 1000, 60000, 655320, M32 - 1]:
                base = so + off
                for now in [0, so, max(base - 1, 0), base, base + 1, base + per - 1 if per else base + 3, base + per, base + per + 1, base + 5 * per + 7, 1 << 41]:
                    p64.append((6, so, off, per, now))
    for _ in range(400):
        so, off, per = rnd.randrange(1 << 41), rnd.randrange(M32), rnd.choice([0, 1, 1000, 60000, rnd.randrange(1, M32)])
        p64.append((6, so, off, per, rnd.randrange(1 << 42)))
        p64.append((4, rnd.randrange(M64), rnd.randrange(M32), 0, 0)); p64.append((5, rnd.randrange(M64), rnd.randrange(M64), 0, 0))
    return p32, roll, p64


def run_extract(src, flavour_flags, points, tmp, tag):
    cpp = os.path.join(tmp, 'extract.cpp')
    open(cpp, 'w').write(EXTRACT_CPP)
    exe = os.path.join(tmp, 'extract_' + tag)
    r = subprocess.run(['g++', '-std=c++11', '-O1', '-I' + src] + flavour_flags + [cpp, os.path.join(src, 'N2kTimer.cpp'), '-o', exe],
                       stdout=subprocess.PIPE, stderr=subprocess.STDOUT, text=True)
    if r.returncode != 0:
        raise RuntimeError('primitive extraction program does not compile (%s): %s' % (tag, r.stdout[-600:]))
    inp = os.path.join(tmp, 'points_' + tag)
    open(inp, 'w').write(''.join('%d %d %d %d %d\n' % p for p in points))
    r = subprocess.run([exe, inp], stdout=subprocess.PIPE, stderr=subprocess.PIPE, text=True, timeout=120)
    if r.returncode != 0:
        raise RuntimeError('primitive extraction program failed (%s): %s' % (tag, r.stderr[-300:]))
    rows = [tuple(int(x) for x in l.split()) for l in r.stdout.split('\n') if l.strip()]
    if len(rows) != len(points):
        raise RuntimeError('primitive extraction returned %d rows for %d points' % (len(rows), len(points)))
    return rows


# Python copy of the Lean definitions - used only to print a readable message; the Lean kernel checks the generated file
def model(kind, a, b, c, d, roll_state):
    sub32 = lambda x, y: (x % M32 + M32 - y % M32) % M32
    if kind == 0:
        return int(sub32(b, a) < I32)
    if kind == 1:
        return int(sub32(c, (a + b) % M32) < I32)
    if kind == 2:
        n = (a % M32 + b) % M32
        return 0 if n == M32 - 1 else n
    if kind == 3:
        return int(a != M32 - 1 and sub32(b % M32, a) < I32)
    if kind == 4:
        return (a + b) % M64
    if kind in (5, 7):
        return int(b > a)
    if kind == 6:
        so, off, per, now = a, b, c, d
        if per == 0:
            return M64 - 1
        return off + so if off + so > now else so + off + ((now - (off + so)) // per + 1) * per
    if kind == 8:
        return a
    if kind == 9:
        rc, last = roll_state
        if last > a:
            rc = (rc + 1) % M32
        roll_state[0], roll_state[1] = rc, a
        return rc * M32 + a
    return None


LEAN_HEAD = '''import N2k.Model.Heartbeat
/-! GENERATED by tools/translators/time_sites.py from src/N2kTimer.h, src/N2kTimer.cpp - do not edit.
The primitives of the library EXTRACTED BY EXECUTION (both timer flavours, controllable clock) on a grid of points around
0, 2^31, 2^32, 2^64 and the scheduler's sentinel plus random points from a fixed seed; each theorem states, and the kernel
checks by evaluation, that the Lean definitions of `Basic/Time.lean` / `Model/Heartbeat.lean` give exactly the extracted values.
Row = (kind, a, b, c, d, result): 0 N2kIsTimeBefore(a,b) · 1 N2kHasElapsed(a,b,c) · 2 32-bit FromNow(b) at clock a -> NextTime ·
3 32-bit IsTime with NextTime a at clock b · 4/5 the same for the 64-bit scheduler · 6 tN2kSyncScheduler::UpdateNextTime with
SyncOffset a, Offset b, Period c at clock d -> NextTime · 7 its IsTime with NextTime a at clock b · 8 SetSyncOffset at clock a ->
SyncOffset · `rollIn`/`rollOut`: successive millis() values and what the 32-bit build's N2kMillis64() returned. -/
namespace N2k.Gen.TimePrimitives
open N2k.Time N2k.Heartbeat

def b2n (b : Bool) : Nat := if b then 1 else 0

def chk (r : Nat × Nat × Nat × Nat × Nat × Nat) : Bool :=
  match r with
  | (0, a, b, _, _, x) => b2n (isTimeBefore a b) == x
  | (1, a, b, c, _, x) => b2n (hasElapsed a b c) == x
  | (2, a, b, _, _, x) => (Sched.fromNow .t32 a b).next == x
  | (3, a, b, _, _, x) => b2n (Sched.isTime .t32 ⟨a⟩ b) == x
  | (4, a, b, _, _, x) => (Sched.fromNow .t64 a b).next == x
  | (5, a, b, _, _, x) => b2n (Sched.isTime .t64 ⟨a⟩ b) == x
  | (6, a, b, c, d, x) => (SyncSched.updateNextTime a d ⟨0, b, c⟩).next == x
  | (7, a, b, _, _, x) => b2n (SyncSched.isTime ⟨a, 0, 1⟩ b) == x
  | (8, a, _, _, _, x) => a == x
  | _ => false

/-- successive calls of the 32-bit build's `N2kMillis64()` while `millis()` returns the listed values -/
def rollRun : Roll → List Nat → List Nat
  | _, [] => []
  | r, m :: ms => (r.read m).2 :: rollRun (r.read m).1 ms

'''


def write_lean(gen_dir, rows, roll_in, roll_out):
    chunks = [rows[i:i + 200] for i in range(0, len(rows), 200)]
    out = [LEAN_HEAD]
    for n, ch in enumerate(chunks):
        out.append('def tbl%d : List (Nat × Nat × Nat × Nat × Nat × Nat) := [\n' % n)
        out.append(',\n'.join('  (%d, %d, %d, %d, %d, %d)' % r for r in ch))
        out.append(']\ntheorem tbl%d_agrees : tbl%d.all chk = true := by decide\n\n' % (n, n))
    out.append('def rollIn : List Nat := [%s]\n' % ', '.join(map(str, roll_in)))
    out.append('def rollOut : List Nat := [%s]\n' % ', '.join(map(str, roll_out)))
    out.append('set_option maxRecDepth 20000 in\ntheorem roll_agrees : (rollRun {} rollIn == rollOut) = true := by decide\n\nend N2k.Gen.TimePrimitives\n')
    path = os.path.join(gen_dir, 'TimePrimitives.lean')
    text = ''.join(out)
    if not os.path.exists(path) or open(path).read() != text:
        open(path, 'w').write(text)
    return len(chunks) + 1


def extract_primitives(src, gen_dir):
    p32, roll, p64 = grid_points()
    tmp = tempfile.mkdtemp(prefix='tprim_')
    try:
        r32 = run_extract(src, ['-U__linux__', '-U__linux', '-Ulinux', '-DT32=1'], roll + p32, tmp, 't32')
        # kinds 0/1 are also evaluated in the 64-bit flavour (same header text, different platform branch)
        r64 = run_extract(src, [], p64 + [p for p in p32 if p[0] in (0, 1)][:800], tmp, 't64')
    finally:
        shutil.rmtree(tmp, ignore_errors=True)
    roll_rows, rows = r32[:len(roll)], r32[len(roll):] + r64
    st = [0, 0]
    for r in roll_rows + rows:
        want = model(r[0], r[1], r[2], r[3], r[4], st)
        if want != r[5]:
            raise RuntimeError('primitive disagrees with the Lean definition: kind %d (a=%d b=%d c=%d d=%d): code %d, model %d' % (r + (want,)))
    nthm = write_lean(gen_dir, rows, [r[1] for r in roll_rows], [r[5] for r in roll_rows]) if gen_dir else 0
    return {'points': len(rows) + len(roll_rows), 'generated_theorems': nthm}


def run(src, gen_dir=None):
    sites, stats = scan(src)
    have = {}
    for s in sites:
        have[key(s)] = have.get(key(s), 0) + 1
    wl = json.load(open(WHITELIST))
    want, classes = set(), {}
    for e in wl['sites']:
        want.add(key((e['file'], e['function'], e['op'], tuple(sorted(e['ids'])))))
        classes[e['class']] = classes.get(e['class'], 0) + 1
    new = sorted(k for k in have if k not in want)
    gone = sorted(k for k in want if k not in have)
    if new:
        raise RuntimeError('raw comparison / arithmetic / constant on a time value outside the primitives, not on the reviewed whitelist '
                           '(file|function|operator|time classes): ' + ' ;; '.join(new[:6]))
    prim = extract_primitives(src, gen_dir)
    stats.update({'sites_outside_primitives': len(sites), 'distinct_sites': len(have), 'whitelist_classes': classes,
                  'whitelisted_sites_not_found': gone, 'primitive_points': prim['points'],
                  'obligations': 1 + prim['generated_theorems']})
    return stats


if __name__ == '__main__':
    import sys
    src = sys.argv[1] if len(sys.argv) > 1 else '/repo/src'
    if len(sys.argv) > 2 and sys.argv[2] == '--dump':
        sites, stats = scan(src)
        print(json.dumps({'stats': stats, 'sites': sorted(set(key(s) for s in sites))}, indent=1))
    else:
        print(json.dumps(run(src, sys.argv[2] if len(sys.argv) > 2 else None), indent=1))
