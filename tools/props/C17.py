"""C17 - Actisense format (encoder + reader). SPEC drives tools/check.py; MANIFEST feeds tools/gen_manifest.py."""
SPEC = {
    'engine': 'acti', 'harness': 'acti.cpp',
    # ActisenseReader.cpp is not in the repo's CMake list; N2kTimer.cpp is NOT linked: the harness supplies N2kMillis()
    'repo_srcs': ['N2kMsg.cpp', 'N2kStream.cpp', 'ActisenseReader.cpp'],
    'translators': ['constants'],
    'lean_modules': ['N2k.Props.Consts.C17', 'N2k.Props.C17'], 'props_files': ['N2k/Props/Consts/C17.lean', 'N2k/Props/C17.lean'],
    'case_start': ['enc', 'rnew'],
    # node level: the same engine (ops fnew/fsend/frx), a real tNMEA2000 behind the mock driver forwarding to a memory stream
    'extra': [{'engine': 'acti', 'harness': 'actifwd.cpp', 'case_start': ['fnew'],
               'repo_srcs': ['N2kMsg.cpp', 'N2kStream.cpp', 'N2kMessages.cpp', 'N2kTimer.cpp', 'N2kGroupFunction.cpp',
                             'N2kGroupFunctionDefaultHandlers.cpp', 'NMEA2000.cpp', 'ActisenseReader.cpp']}],
    'trusted_base': ["model N2k/Model/Actisense.lean transcribes SendInActisenseFormat/AddByteEscapedToBuf (N2kMsg.cpp) and "
                     "tActisenseReader (ActisenseReader.cpp) by hand; the index width (uint16_t) and buffer sizes (478, 300, 223) "
                     "are copied from the declarations, not extracted; little-endian host (GetBuf memcpy)",
                     "the content of the caller's tN2kMsg after GetMessageFromStream returned false is not modelled",
                     "N2kMillis() is a harness-controlled clock (N2kTimer.cpp not linked)",
                     "which time stamp a decoded data frame carries (embedded / local receive time) is a model parameter "
                     "(Cfg.stampLocal) learnt from the code by a probe; the oracle does not constrain MsgTime"],
    'assumptions': ["single-threaded use of a reader", "N2kStream::peek()/read() return the same next byte (a FIFO byte stream)",
                    "valid message = tN2kMsg::IsValid() (PGN != 0, DataLen > 0) with DataLen <= MaxDataLen",
                    "forwarding (actifwd.cpp): the node is open, its driver accepts every frame, received messages arrive complete "
                    "(reassembly is C02, the send gate C04), the PGN classification (known/system/fast packet) is taken from the "
                    "library; whether a message whose send was refused is forwarded is left open"],
}
MANIFEST = {
    'text': "Theorems over a hand model of the encoder and of the reader's state machine: (roundtrip) for EVERY valid message "
            "(pgn 1..2^24-1, 1..223 payload bytes, any number of 0x10 bytes anywhere incl. header, length byte and checksum) the "
            "encoder raises no index fault and a reader in ANY idle state (any stale buffer content, either char signedness) "
            "fed the bytes reports exactly that message and is idle again; concatenations give one message per frame; "
            "(safety) from every reachable state every byte is processed without buffer-index fault and a reported message "
            "is the decoding of a buffer with consistent length byte, checksum and embedded data length, and the consumed "
            "stream ends with exactly that complete frame (ghost-history invariant), and has DataLen <= 223 with exactly that many payload bytes (both "
            "frame types); (resync) from an idle reader stray 0x10 bytes in front of a frame do not hide it; after any "
            "byte other than 0x10 the next well-formed frame is reported, of two consecutive frames the second always is; "
            "splitting the stream between calls does not change the result. Tied to the C++ by a correspondence run (encoder: "
            "all lengths x escape counts x positions; reader: concatenations with garbage and 9 kinds of malformed frames, "
            "split at every byte boundary, byte-at-a-time, readOut=false) under ASan/UBSan with an independent frame-grammar oracle; node level: a real tNMEA2000 forwarding to a memory stream in all modes x option combinations, oracle from the option documentation, policy decision functions in the model (C17_forwarding_policy, C17_forwarding_roundtrip).",
    'design_ref': 'DESIGN.md section 4, C17',
    'note': "Trusted: Lean kernel; hand transcription validated by differential runs only; sizes/widths copied by hand; "
            "forwarding policy modelled as decision functions (send gate, reassembly, classification taken as given); tN2kMsg content after a failed read not modelled.",
}
