import N2k.Model.Seasmart
/-!
# Pure description of the `$PCDIN` sentence and of what the parser accepts (C19)

`sentence m ts` is the text `N2kToSeasmart` produces; `parse s` is a list-level description of
`SeasmartToN2k` on the string `s` (no memory, no faults). `Lemmas/Seasmart.lean` proves that the
memory-level model computes exactly these (`exportM_eq`, `importS_eq_parse`).
-/
namespace N2k.Seasmart

def hexByte (b : Nat) : List Nat := [hexChar (b / 16), hexChar (b % 16)]

def xorAll (l : List Nat) : Nat := l.foldl (· ^^^ ·) 0

/-- hex text of the payload -/
def hexData (data : List Nat) : List Nat := data.flatMap fun b => hexByte (b % 256)

/-- everything before the `*` -/
def body (m : Msg) (ts : Nat) : List Nat :=
  pre7 ++ (hexByte (m.pgn / 65536 % 256) ++ (hexByte (m.pgn % 65536 / 256 % 256) ++
  (hexByte (m.pgn % 65536 % 256) ++ (44 ::
  (hexByte (ts % 4294967296 / 65536 % 65536 / 256 % 256) ++
  (hexByte (ts % 4294967296 / 65536 % 65536 % 256) ++
  (hexByte (ts % 4294967296 % 65536 / 256 % 256) ++
  (hexByte (ts % 4294967296 % 65536 % 256) ++ (44 ::
  (hexByte (m.src % 256) ++ (44 :: hexData m.data)))))))))))

/-- the `$PCDIN` sentence of a message (without the NUL) -/
def sentence (m : Msg) (ts : Nat) : List Nat :=
  body m ts ++ (42 :: hexByte (xorAll ((body m ts).drop 1) % 256))

/-- bytes spelled by consecutive pairs of hex digits -/
def hexPairs : List Nat → List Nat
  | a :: b :: t => (digitVal a * 16 + digitVal b) :: hexPairs t
  | _ => []

/-- a field of `k` hex digits at the start of `d` -/
def hexField (d : List Nat) (k : Nat) : Option Nat :=
  if k ≤ d.length ∧ (d.take k).all isxdigit then some (strtol16 (d.take k) % 4294967296) else none

/-- `n` two-digit bytes at the start of `d` -/
def dataSpec : Nat → List Nat → Option (List Nat)
  | 0, _ => some []
  | n + 1, d =>
    match hexField d 2 with
    | none => none
    | some b =>
      match dataSpec n (d.drop 2) with
      | none => none
      | some data => some (b % 256 :: data)

/-- what `SeasmartToN2k` returns for the string `s` -/
def parse (s : List Nat) : Option Res :=
  if s.take 7 ≠ pre7 then none else
  let d1 := s.drop 7
  match hexField d1 2 with
  | none => none
  | some hi =>
  let d2 := d1.drop 2
  match hexField d2 4 with
  | none => none
  | some lo =>
  if d2.getD 4 0 ≠ 44 then none else
  let d3 := d2.drop 5
  match hexField d3 8 with
  | none => none
  | some ts =>
  if d3.getD 8 0 ≠ 44 then none else
  let d4 := d3.drop 9
  match hexField d4 2 with
  | none => none
  | some src =>
  if d4.getD 2 0 ≠ 44 then none else
  let d5 := d4.drop 3
  let k := (d5.takeWhile fun c => decide (c ≠ 0 ∧ c ≠ 42)).length
  if k % 2 ≠ 0 then none else
  if k / 2 > 223 then none else
  match dataSpec (k / 2) d5 with
  | none => none
  | some data =>
  let d6 := d5.drop (2 * (k / 2))
  if d6.getD 0 0 ≠ 42 then none else
  match hexField (d6.drop 1) 2 with
  | none => none
  | some ck =>
  if ck ≠ xorAll ((s.drop 1).takeWhile (· ≠ 42)) % 256 then none else
  some ⟨hi * 65536 + lo, ts, src % 256, data⟩

end N2k.Seasmart
