#!/usr/bin/env python3
"""Prototype: per-bit symbolic evaluation of setter argument expressions from clang's JSON AST."""
import json, sys, re, subprocess
def load(filt, src='/repo/src/N2kMessages.cpp'):
    txt=subprocess.run(['clang++-14','-std=gnu++11','-I/repo/src','-fsyntax-only','-Xclang','-ast-dump=json','-Xclang','-ast-dump-filter='+filt,src],capture_output=True,text=True).stdout
    dec=json.JSONDecoder(); i=0; docs=[]
    while i<len(txt):
        while i<len(txt) and txt[i] in ' \n\r\t': i+=1
        if i>=len(txt): break
        if txt[i]!='{':
            j=txt.find('\n',i); i=(j+1) if j>=0 else len(txt); continue
        o,j=dec.raw_decode(txt,i); docs.append(o); i=j
    return docs
TYPES={'unsigned char':(8,False),'uint8_t':(8,False),'char':(8,True),'signed char':(8,True),'int8_t':(8,True),
 'short':(16,True),'int16_t':(16,True),'unsigned short':(16,False),'uint16_t':(16,False),'int':(32,True),'unsigned int':(32,False),
 'int32_t':(32,True),'uint32_t':(32,False),'long':(64,True),'unsigned long':(64,False),'uint64_t':(64,False),'int64_t':(64,True),'bool':(1,False),
 'tN2kBinaryStatus':(64,False)}
def ty(n):
    q=n.get('type',{}); t=q.get('desugaredQualType') or q.get('qualType','')
    t=t.replace('const ','').replace(' &','').strip()
    if t in TYPES: return TYPES[t]
    if t.startswith('tN2k') or t.startswith('enum ') or t.startswith('tBatt'): return (32,False)   # unscoped enum: treat as unsigned int
    raise ValueError('type '+t)
class Opaque(Exception): pass
def const(v,w): return [ (v>>i)&1 for i in range(w)]
def resize(bits,fromsigned,w):
    if len(bits)>=w: return bits[:w]
    ext=bits[-1] if fromsigned else 0
    return bits+[ext]*(w-len(bits))
def ev(n):
    k=n['kind']
    if k in('ParenExpr','ConstantExpr'): return ev(n['inner'][0])
    if k=='IntegerLiteral':
        w,s=ty(n); return const(int(n['value']),w),s
    if k=='CXXBoolLiteralExpr': return [1 if n['value'] else 0],False
    if k=='DeclRefExpr':
        w,s=ty(n); name=n['referencedDecl']['name']; return [(name,i) for i in range(w)],s
    if k=='MemberExpr':   # e.g. Status1.Status
        w,s=ty(n); base=n['inner'][0]
        name=(base.get('referencedDecl') or {}).get('name','?')+'.'+n['name'].lstrip('.')
        return [(name,i) for i in range(w)],s
    if k in('ImplicitCastExpr','CStyleCastExpr','CXXStaticCastExpr','CXXFunctionalCastExpr'):
        ck=n.get('castKind')
        b,s=ev(n['inner'][0])
        if ck in('LValueToRValue','NoOp'): return b,s
        w2,s2=ty(n)
        if ck in('IntegralCast','IntegralToBoolean'): return resize(b,s,w2),s2
        raise Opaque('cast '+str(ck))
    if k=='BinaryOperator':
        op=n['opcode']; (a,sa),(b,sb)=ev(n['inner'][0]),ev(n['inner'][1]); w,s=ty(n)
        if op in('&','|'):
            a=resize(a,sa,w); b=resize(b,sb,w); out=[]
            for x,y in zip(a,b):
                if op=='&': r= 0 if (x==0 or y==0) else (y if x==1 else (x if y==1 else (x if x==y else None)))
                else:       r= 1 if (x==1 or y==1) else (y if x==0 else (x if y==0 else (x if x==y else None)))
                if r is None: raise Opaque('overlap')
                out.append(r)
            return out,s
        if op in('<<','>>'):
            if any(not isinstance(x,int) for x in b): raise Opaque('var shift')
            kk=sum(x<<i for i,x in enumerate(b)); a=resize(a,sa,w)
            if op=='<<': return ([0]*kk+a)[:w],s
            fill=a[-1] if sa else 0
            return (a[kk:]+[fill]*kk)[:w],s
        raise Opaque('binop '+op)
    if k=='ConditionalOperator':
        (c,_),(t,st),(f,sf)=ev(n['inner'][0]),ev(n['inner'][1]),ev(n['inner'][2]); w,s=ty(n)
        t=resize(t,st,w); f=resize(f,sf,w)
        cb=[x for x in c if x!=0]
        if len(cb)!=1 or isinstance(cb[0],int): raise Opaque('cond')
        out=[]
        for x,y in zip(t,f):
            if x==y: out.append(x)
            elif x==1 and y==0: out.append(cb[0])
            else: raise Opaque('cond neg')
        return out,s
    raise Opaque(k)
ADD={'AddByte':8,'Add2ByteUInt':16,'Add2ByteInt':16,'Add3ByteInt':24,'Add4ByteUInt':32,'AddUInt64':64}
SC=re.compile(r'Add(\d)Byte(U?)Double')
def member(call):
    m=call['inner'][0]; return m.get('name') if m['kind']=='MemberExpr' else None
def calls(n):
    if n.get('kind')=='CXXMemberCallExpr': yield n; return
    for c in n.get('inner',[]): yield from calls(c)
def setter_layout(fn):
    body=[c for c in fn['inner'] if c['kind']=='CompoundStmt'][0]
    items=[]
    for st in body['inner']:
        if st['kind'] in('IfStmt','ForStmt','WhileStmt'): items.append(('UNTRANSLATED',st['kind'])); continue
        for call in calls(st):
            name=member(call); args=call['inner'][1:]
            if name in ADD:
                try:
                    b,s=ev(args[0]); items.append(('bits',resize(b,s,ADD[name])))
                except (Opaque,ValueError) as e: items.append(('UNTRANSLATED',name,str(e)))
            elif name and SC.fullmatch(name):
                m=SC.fullmatch(name)
                def lit(a):
                    if a['kind'] in('FloatingLiteral','IntegerLiteral'): return a['value']
                    return lit(a['inner'][0]) if a.get('inner') else '?'
                def var(a):
                    if a['kind']=='DeclRefExpr': return a['referencedDecl']['name']
                    if a['kind']=='MemberExpr': return var(a['inner'][0])+'.'+a['name']
                    return var(a['inner'][0]) if a.get('inner') else '?'
                items.append(('scaled',int(m.group(1)),m.group(2)=='',lit(args[1]),var(args[0])))
            elif name in('SetPGN',): items.append(('pgn',args[0]['inner'][0].get('value') if args[0].get('inner') else args[0].get('value')))
            elif name: items.append(('UNTRANSLATED',name))
    return items
if __name__=='__main__':
    filt=sys.argv[1]; docs=load(filt)
    for d in docs:
        if d.get('kind')=='FunctionDecl' and d.get('name','').startswith('SetN2k') and any(c.get('kind')=='CompoundStmt' for c in d.get('inner',[])):
            print('==',d['name'])
            for it in setter_layout(d):
                if it[0]=='bits': print('  bits', ' '.join('0' if x==0 else '1' if x==1 else f'{x[0]}[{x[1]}]' for x in it[1]))
                else: print('  ',it)
