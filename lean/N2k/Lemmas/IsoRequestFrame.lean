import N2k.Model.IsoRequest
/-! What the send path and the responder leave unchanged: the configured ("static") data of every device and
whether its address claim is pending. Needed to show that the devices of a node answer a broadcast request
independently of each other. -/
namespace N2k.IsoRequest
open N2k.Send N2k.Time

/-- the part of a device entry the answers depend on, and whether its claim is pending at (`f`,`now`) -/
def key (f : Flavor) (now : Nat) (d : Dev) : Nat × Nat × List Nat × Bool :=
  (d.source, d.name, d.txList, (isAddressClaimStarted f now d).2)

/-- the configured part of the extra device data -/
def xkey (x : DevX) : List Nat × Option Product := (x.rxList, x.prod)

theorem map_set_same {α β : Type} (k : α → β) (l : List α) (i : Nat) (d d' : α) (h : l[i]? = some d)
    (hk : k d' = k d) : (l.set i d').map k = l.map k := by
  apply List.ext_getElem?
  intro j
  simp only [List.getElem?_map, List.getElem?_set]
  by_cases hij : i = j
  · subst hij
    have hl : i < l.length := by
      rcases Nat.lt_or_ge i l.length with h1 | h1
      · exact h1
      · rw [List.getElem?_eq_none h1] at h; cases h
    have hg : l[i] = d := by
      have := List.getElem?_eq_getElem hl
      rw [this] at h; exact Option.some.inj h
    simp [hl, hk, hg]
  · simp [hij]

theorem isEnabled_disabled (f : Flavor) : Sched.isEnabled f (Sched.disabled f) = false := by
  simp [Sched.isEnabled, Sched.disabled]

theorem ics_source (f : Flavor) (now : Nat) (d : Dev) : (isAddressClaimStarted f now d).1.source = d.source := by
  unfold isAddressClaimStarted
  by_cases h1 : d.claimTimer.isEnabled f = true
  · by_cases h2 : d.claimTimer.isTime f now = true
    · simp [h1, h2]
    · simp [h1, h2]
  · simp [h1]

theorem ics_name (f : Flavor) (now : Nat) (d : Dev) : (isAddressClaimStarted f now d).1.name = d.name := by
  unfold isAddressClaimStarted
  by_cases h1 : d.claimTimer.isEnabled f = true
  · by_cases h2 : d.claimTimer.isTime f now = true
    · simp [h1, h2]
    · simp [h1, h2]
  · simp [h1]

theorem ics_txList (f : Flavor) (now : Nat) (d : Dev) : (isAddressClaimStarted f now d).1.txList = d.txList := by
  unfold isAddressClaimStarted
  by_cases h1 : d.claimTimer.isEnabled f = true
  · by_cases h2 : d.claimTimer.isTime f now = true
    · simp [h1, h2]
    · simp [h1, h2]
  · simp [h1]

/-- evaluating the claim timer again gives the same answer -/
theorem ics_idem (f : Flavor) (now : Nat) (d : Dev) :
    (isAddressClaimStarted f now (isAddressClaimStarted f now d).1).2 = (isAddressClaimStarted f now d).2 := by
  unfold isAddressClaimStarted
  by_cases h1 : d.claimTimer.isEnabled f = true
  · by_cases h2 : d.claimTimer.isTime f now = true
    · simp [h1, h2, isEnabled_disabled]
    · simp [h1, h2]
  · simp [h1]

theorem key_ics (f : Flavor) (now : Nat) (d : Dev) : key f now (isAddressClaimStarted f now d).1 = key f now d := by
  simp [key, ics_source, ics_name, ics_txList, ics_idem]

theorem key_seq (f : Flavor) (now : Nat) (d : Dev) (s : Option (List Nat)) : key f now { d with seq := s } = key f now d := by
  unfold key isAddressClaimStarted
  by_cases h1 : d.claimTimer.isEnabled f = true
  · by_cases h2 : d.claimTimer.isTime f now = true
    · simp [h1, h2]
    · simp [h1, h2]
  · simp [h1]

theorem key_gsc (f : Flavor) (now : Nat) (ls : Lists) (d : Dev) (pgn : Nat) :
    key f now (getSequenceCounter ls d pgn).1 = key f now d := by
  unfold getSequenceCounter
  exact key_seq f now d _

/-- the state-level invariant: clock, timer flavour, mode and the keys of all devices -/
def SameSt (a b : St) : Prop :=
  b.flavor = a.flavor ∧ b.now = a.now ∧ b.claimMode = a.claimMode ∧
  b.devs.map (key a.flavor a.now) = a.devs.map (key a.flavor a.now)

theorem SameSt.refl (a : St) : SameSt a a := ⟨rfl, rfl, rfl, rfl⟩

theorem SameSt.trans {a b c : St} (h1 : SameSt a b) (h2 : SameSt b c) : SameSt a c := by
  obtain ⟨f1, n1, c1, d1⟩ := h1
  obtain ⟨f2, n2, c2, d2⟩ := h2
  refine ⟨by rw [f2, f1], by rw [n2, n1], by rw [c2, c1], ?_⟩
  rw [f1, n1] at d2
  rw [d2, d1]

theorem sameSt_setDev (s : St) (i : Nat) (d d' : Dev) (h : s.devs[i]? = some d)
    (hk : key s.flavor s.now d' = key s.flavor s.now d) : SameSt s { s with devs := updDev s.devs i d' } :=
  ⟨rfl, rfl, rfl, map_set_same _ _ _ _ _ h hk⟩

theorem sameSt_ringdrv (s : St) (r : Ring) (dv : Drv) : SameSt s { s with ring := r, drv := dv } := ⟨rfl, rfl, rfl, rfl⟩

theorem getElem?_updDev_self (l : List Dev) (i : Nat) (d d' : Dev) (h : l[i]? = some d) : (updDev l i d')[i]? = some d' := by
  have hl : i < l.length := by
    rcases Nat.lt_or_ge i l.length with h1 | h1
    · exact h1
    · rw [List.getElem?_eq_none h1] at h; cases h
  simp [updDev, hl]

/-- the tests of `SendMsg` leave the keys alone, whatever their outcome -/
theorem gate_same (s : St) (m : Msg) (dev : Option Nat) :
    match gate s m dev with
    | .refuse s' => SameSt s s'
    | .pass s1 d1 _ => SameSt s s1 ∧ s1.devs[dev.getD 0]? = some d1 := by
  unfold gate
  by_cases hidx : dev.getD 0 ≥ s.devs.length
  · simp only [hidx, ↓reduceIte]; exact SameSt.refl s
  · simp only [hidx, ↓reduceIte]
    cases hd : s.devs[dev.getD 0]? with
    | none => exact SameSt.refl s
    | some d0 =>
      simp only
      by_cases h3 : srcOf dev d0 m > Gen.maxCanBusAddress ∧ m.pgn ≠ 60928
      · rw [if_pos h3]; exact SameSt.refl s
      · rw [if_neg h3]
        by_cases hc : n2kToCanId m.prio m.pgn (srcOf dev d0 m) (if m.pgn &&& 0xff ≠ 0 then 0xff else m.dst) = 0
        · rw [if_pos hc]; exact SameSt.refl s
        · rw [if_neg hc]
          by_cases hl : s.listenOnly = true
          · rw [if_pos hl]; exact SameSt.refl s
          · rw [if_neg hl]
            by_cases hp0 : m.pgn = 0
            · rw [if_pos hp0]; exact SameSt.refl s
            · rw [if_neg hp0]
              have hs := sameSt_setDev s (dev.getD 0) d0 (isAddressClaimStarted s.flavor s.now d0).1 hd (key_ics _ _ _)
              by_cases hcl : (isAddressClaimStarted s.flavor s.now d0).2 = true ∧ m.pgn ≠ 60928
              · rw [if_pos hcl]; exact hs
              · rw [if_neg hcl]; exact ⟨hs, getElem?_updDev_self _ _ _ _ hd⟩

/-- frame production leaves the keys alone -/
theorem produce_same (s1 : St) (idx : Nat) (d1 : Dev) (canId : Nat) (m : Msg) (hd : s1.devs[idx]? = some d1) :
    SameSt s1 (produce s1 idx d1 canId m).1 := by
  unfold produce
  by_cases h1 : m.len ≤ 8 ∧ ¬ (m.prio < 0x80 ∧ isFastPacketPGN s1.lists m.pgn)
  · rw [if_pos h1]; exact sameSt_ringdrv s1 _ _
  · rw [if_neg h1]
    by_cases h2 : m.tp = true
    · rw [if_pos h2]; exact SameSt.refl s1
    · rw [if_neg h2]
      exact SameSt.trans (sameSt_setDev s1 idx d1 _ hd (key_gsc _ _ _ _ _)) (sameSt_ringdrv _ _ _)

/-- **`SendMsg` never changes a device's address, NAME, declared lists or claim status.** -/
theorem sendMsg_same (s : St) (m : Msg) (dev : Option Nat) : SameSt s (sendMsg s m dev).1 := by
  have hg := gate_same s m dev
  unfold sendMsg
  cases hgate : gate s m dev with
  | refuse s' => rw [hgate] at hg; exact hg
  | pass s1 d1 canId =>
    rw [hgate] at hg
    exact SameSt.trans hg.1 (produce_same s1 _ d1 canId m hg.2)

end N2k.IsoRequest
