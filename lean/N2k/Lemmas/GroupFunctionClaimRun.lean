import N2k.Lemmas.GroupFunctionRun
/-! The delayed address claim over histories: it stays armed until the first poll at which it is due, is handed to
`SendMsg` at that poll, and never again until it is re-armed (C09). -/
namespace N2k.GF
open N2k.Send N2k.Time

/-! ## the send path does not touch the clock -/

theorem gate_refuse_now (s : St) (m : Msg) (dev : Option Nat) (s' : St) (h : gate s m dev = .refuse s') : s'.now = s.now := by
  unfold gate at h
  by_cases hidx : dev.getD 0 ≥ s.devs.length
  · simp only [hidx, ↓reduceIte] at h; injection h with h; subst h; rfl
  · simp only [hidx, ↓reduceIte] at h
    cases hd : s.devs[dev.getD 0]? with
    | none => simp only [hd] at h; injection h with h; subst h; rfl
    | some d0 =>
      simp only [hd] at h
      by_cases h3 : srcOf dev d0 m > Gen.maxCanBusAddress ∧ m.pgn ≠ 60928
      · rw [if_pos h3] at h; injection h with h; subst h; rfl
      · rw [if_neg h3] at h
        by_cases hc : n2kToCanId m.prio m.pgn (srcOf dev d0 m) (if m.pgn &&& 0xff ≠ 0 then 0xff else m.dst) = 0
        · rw [if_pos hc] at h; injection h with h; subst h; rfl
        · rw [if_neg hc] at h
          by_cases hl : s.listenOnly = true
          · rw [if_pos hl] at h; injection h with h; subst h; rfl
          · rw [if_neg hl] at h
            by_cases hp0 : m.pgn = 0
            · rw [if_pos hp0] at h; injection h with h; subst h; rfl
            · rw [if_neg hp0] at h
              by_cases hcl : (isAddressClaimStarted s.flavor s.now d0).2 = true ∧ m.pgn ≠ 60928
              · rw [if_pos hcl] at h; injection h with h; subst h; rfl
              · rw [if_neg hcl] at h; cases h

theorem sendMsg_now (s : St) (m : Msg) (dev : Option Nat) : (sendMsg s m dev).1.now = s.now := by
  unfold sendMsg
  cases hg : gate s m dev with
  | refuse s' => exact gate_refuse_now s m dev s' hg
  | pass s1 d1 canId =>
    obtain ⟨d0, hp⟩ := gate_pass s m dev s1 d1 canId hg
    have hs1 : s1.now = s.now := by rw [hp.s1eq]
    simp only []
    unfold produce
    split
    · exact hs1
    · split
      · exact hs1
      · exact hs1

/-! ## one device's pending step and the others -/

/-- what device `i`'s pending claim depends on -/
def SameFor (i : Nat) (g g' : GSt) : Prop :=
  g'.attrs[i]? = g.attrs[i]? ∧ g'.s.now = g.s.now ∧ g'.s.flavor = g.s.flavor

theorem SameFor.refl (i : Nat) (g : GSt) : SameFor i g g := ⟨rfl, rfl, rfl⟩
theorem SameFor.trans {i : Nat} {a b c : GSt} (h1 : SameFor i a b) (h2 : SameFor i b c) : SameFor i a c :=
  ⟨h2.1.trans h1.1, h2.2.1.trans h1.2.1, h2.2.2.trans h1.2.2⟩

theorem syncName_s (g : GSt) (j : Nat) : (syncName g j).s.now = g.s.now ∧ (syncName g j).s.flavor = g.s.flavor := by
  unfold syncName; split <;> exact ⟨rfl, rfl⟩

theorem pendingStep_other (g : GSt) (i j : Nat) (hij : j ≠ i) : SameFor i g (pendingStep g j) := by
  unfold pendingStep
  split
  · simp only []
    split
    · have hs := syncName_s g j
      have hsa := syncName_attrs g j
      split
      · have h1 : SameFor i g { syncName g j with s := (sendMsg (syncName g j).s (claimMsg ‹Dev›) (some j)).1 } :=
          ⟨by simp only [hsa], by simp only [sendMsg_now]; exact hs.1,
           by rw [(sendMsg_sameNode _ _ _).2.1]; exact hs.2⟩
        split
        · refine h1.trans ⟨?_, rfl, rfl⟩
          simp only [setAttr]; rw [List.getElem?_set_ne hij]
        · exact h1
      · exact ⟨by rw [hsa], hs.1, hs.2⟩
    · exact SameFor.refl i g
  · exact SameFor.refl i g

theorem foldl_pendingStep_other (i : Nat) : ∀ (l : List Nat) (g : GSt), i ∉ l → SameFor i g (l.foldl pendingStep g)
  | [], g, _ => SameFor.refl i g
  | j :: r, g, h => by
    rw [List.foldl_cons]
    have hj : j ≠ i := fun e => h (by simp [e])
    exact (pendingStep_other g i j hj).trans (foldl_pendingStep_other i r _ (fun hm => h (by simp [hm])))

/-- the pending claim of device `i` is due in state `g` -/
def due (g : GSt) (i : Nat) : Prop := ∃ a, g.attrs[i]? = some a ∧ a.pendingClaim.isTime g.s.flavor g.s.now = true

theorem pendingStep_not_due (g : GSt) (i : Nat) (h : ¬ due g i) : pendingStep g i = g := by
  unfold pendingStep
  split
  · rename_i d a hd ha
    simp only []
    rw [if_neg (fun hc => h ⟨a, ha, hc⟩)]
  · rfl

/-- `ParseMessages` for device `i`: the state in which its pending step runs agrees with the state before the poll on the
device's attributes, clock and timer build; the steps of the other devices leave the result for `i` alone -/
theorem pollG_device (g : GSt) (i : Nat) (hi : i < g.s.devs.length) :
    ∃ gpre, SameFor i g gpre ∧ gpre.s.devs.length = g.s.devs.length ∧ SameFor i (pendingStep gpre i) (pollG g)
      ∧ (pollG g).attrs[i]? = (pendingStep gpre i).attrs[i]? := by
  have hr : List.range g.s.devs.length = List.range' 0 i ++ i :: List.range' (i + 1) (g.s.devs.length - (i + 1)) := by
    rw [List.range_eq_range']
    have e : g.s.devs.length = i + ((g.s.devs.length - (i + 1)) + 1) := by omega
    conv => lhs; rw [e]
    rw [← List.range'_append_1, List.range'_succ]; simp
  have hlen : (Send.poll g.s).devs.length = g.s.devs.length := by
    have := congrArg List.length (poll_sameNode g.s).2.2.2
    simpa using this
  unfold pollG
  rw [hr, List.foldl_append, List.foldl_cons]
  let g0 : GSt := { g with s := Send.poll g.s }
  have h0 : SameFor i g g0 := ⟨rfl, by simp [g0, Send.poll], by simp [g0, Send.poll]⟩
  have h1 := foldl_pendingStep_other i (List.range' 0 i) g0 (by simp [List.mem_range'_1])
  have hk : ((List.range' 0 i).foldl pendingStep g0).s.devs.length = g.s.devs.length := by
    have hk0 : ∀ (l : List Nat) (g' : GSt), (l.foldl pendingStep g').s.devs.length = g'.s.devs.length := by
      intro l
      induction l with
      | nil => intro g'; rfl
      | cons j r ih =>
        intro g'; rw [List.foldl_cons, ih]
        have := congrArg List.length (pendingStep_keeps g' j).1.2.2.2
        simpa using this
    rw [hk0]; exact hlen
  have h2 := foldl_pendingStep_other i (List.range' (i + 1) (g.s.devs.length - (i + 1)))
    (pendingStep ((List.range' 0 i).foldl pendingStep g0) i) (by simp only [List.mem_range'_1]; omega)
  exact ⟨_, h0.trans h1, hk, h2, h2.1⟩

/-! ## the pending claim of one device along a history -/

/-- the pending-claim timer of device `i` -/
def pc (g : GSt) (i : Nat) : Option Sched := (g.attrs[i]?).map (·.pendingClaim)

/-- a decision that does not (re-)arm the delayed address claim -/
def NonRearm (act : Act) : Prop := act ≠ .serve60928 ∧ ∀ dest data lo up si, act ≠ .cmd60928 dest data lo up si

theorem perform_other (g : GSt) (i j : Nat) (act : Act) (hij : j ≠ i) : (perform g j act).attrs[i]? = g.attrs[i]? := by
  unfold perform
  split
  · rename_i d a hd ha
    cases act with
    | nothing => rfl
    | ack dest data => rfl
    | serve60928 => exact (setPendingClaim_other g j 2).2.2.2 i (fun h => hij h.symm)
    | servePgnList dest tx rx tp => simp only []; split <;> split <;> rfl
    | serveProduct dest tp => simp only []; split <;> rfl
    | serveConfig dest tp => rfl
    | serveHeartbeat iv o =>
      have h2 := (setHeartbeat_attrs g j a ha iv o).2.2.2
      have : (setHeartbeat g j iv o).attrs[i]? = g.attrs[i]? := by rw [h2, List.getElem?_set_ne hij]
      simp only []
      split
      · exact this
      · exact this
    | cmd60928 dest data lo up si =>
      have ha1 : (sendTo g j (ackMsg dest data)).attrs[j]? = some a := ha
      exact (setInstances_spec ha1 lo up si).2.2.2.2 i (fun h => hij h.symm)
    | cmd126998 dest data ws => simp only []; rw [sendTo_attrs, (foldl_setDesc ws g).2.1]
  · rfl

theorem performAll_pc (i : Nat) : ∀ (l : List (Nat × Act)) (g : GSt), (∀ p ∈ l, p.1 = i → NonRearm p.2) →
    pc (performAll g l) i = pc g i
  | [], _, _ => rfl
  | p :: r, g, h => by
    simp only [performAll, List.foldl_cons]
    have ih := performAll_pc i r (perform g p.1 p.2) (fun q hq => h q (by simp [hq]))
    simp only [performAll] at ih
    rw [ih]
    by_cases hp : p.1 = i
    · have hn := h p (by simp) hp
      rw [← hp]; exact perform_keeps_pendingClaim g p.1 p.2 hn.1 hn.2
    · simp only [pc]; rw [perform_other g i p.1 p.2 hp]

theorem due_congr {i : Nat} {g g' : GSt} (h : SameFor i g g') : due g' i ↔ due g i := by
  obtain ⟨h1, h2, h3⟩ := h
  unfold due; rw [h1, h2, h3]

theorem pollG_not_due (g : GSt) (i : Nat) (hi : i < g.s.devs.length) (h : ¬ due g i) : pc (pollG g) i = pc g i := by
  obtain ⟨gpre, h1, _, _, h4⟩ := pollG_device g i hi
  have : ¬ due gpre i := fun hc => h ((due_congr h1).mp hc)
  simp only [pc]; rw [h4, pendingStep_not_due gpre i this, h1.1]

/-- a poll that finds the claim due: the claim message with the device's NAME is handed to `SendMsg` by the device's
pending step, and the timer is disabled -/
theorem pollG_due (g : GSt) (i : Nat) (hi : i < g.s.devs.length) (h : due g i) :
    pc (pollG g) i = some (Sched.disabled g.s.flavor)
    ∧ ∃ gpre d a, g.attrs[i]? = some a ∧ gpre.attrs[i]? = some a ∧ gpre.s.devs[i]? = some d
        ∧ (pendingStep gpre i).s = (sendMsg { gpre.s with devs := updDev gpre.s.devs i { d with name := a.name } }
            (claimMsg { d with name := a.name }) (some i)).1 := by
  obtain ⟨gpre, h1, h2, _, h4⟩ := pollG_device g i hi
  obtain ⟨a, ha, hdue⟩ := h
  have hap : gpre.attrs[i]? = some a := by rw [h1.1, ha]
  have hdp : gpre.s.devs[i]? = some (gpre.s.devs[i]'(by omega)) := List.getElem?_eq_getElem (by omega)
  have hduep : a.pendingClaim.isTime gpre.s.flavor gpre.s.now = true := by rw [h1.2.1, h1.2.2]; exact hdue
  obtain ⟨s1, s2⟩ := pendingStep_due gpre i _ a hdp hap hduep
  refine ⟨?_, gpre, _, a, ha, hap, hdp, s1⟩
  simp only [pc]; rw [h4, s2, h1.2.2]

/-- in this history the claim of device `i` is not (re-)armed and no poll finds it due -/
def Calm (i : Nat) : GSt → List Ev → Prop
  | _, [] => True
  | g, e :: r => (∀ p ∈ evLog g e, p.1 = i → NonRearm p.2)
      ∧ (match e with | .poll => ¬ due g i | _ => True) ∧ Calm i (stepEv g e) r

theorem stepEv_devs_length (g : GSt) (e : Ev) : (stepEv g e).s.devs.length = g.s.devs.length := by
  have := congrArg List.length (stepEv_keeps g e).1.2.2.2
  simpa using this

theorem calm_pc (i : Nat) : ∀ (evs : List Ev) (g : GSt), i < g.s.devs.length → Calm i g evs → pc (run g evs) i = pc g i
  | [], _, _, _ => rfl
  | e :: r, g, hi, hc => by
    obtain ⟨c1, c2, c3⟩ := hc
    simp only [run, List.foldl_cons]
    have ih := calm_pc i r (stepEv g e) (by rw [stepEv_devs_length]; exact hi) c3
    simp only [run] at ih
    rw [ih]
    cases e with
    | tick k => rfl
    | poll => exact pollG_not_due g i hi c2
    | rx m => rw [stepEv_rx]; exact performAll_pc i _ g c1

/-- the claim of device `i` is not (re-)armed in this history -/
def NoRearm (i : Nat) : GSt → List Ev → Prop
  | _, [] => True
  | g, e :: r => (∀ p ∈ evLog g e, p.1 = i → NonRearm p.2) ∧ NoRearm i (stepEv g e) r

/-- the millisecond clock stays below 2^64 (the 64-bit scheduler's "disabled" value) -/
def ClockOK : GSt → List Ev → Prop
  | g, [] => g.s.now < M64
  | g, e :: r => g.s.now < M64 ∧ ClockOK (stepEv g e) r

theorem disabled_not_due (f : Flavor) (now : Nat) (h : now < M64) : (Sched.disabled f).isTime f now = false := by
  cases f with
  | t64 => simp only [Sched.disabled, Sched.isTime, disabledVal, M64] at *; simp; omega
  | t32 => simp [Sched.disabled, Sched.isTime, disabledVal]

theorem stepEv_flavor (g : GSt) (e : Ev) : (stepEv g e).s.flavor = g.s.flavor := (stepEv_keeps g e).1.2.1

/-- a disabled timer stays disabled and is never found due, as long as it is not re-armed -/
theorem idle_calm (i : Nat) : ∀ (evs : List Ev) (g : GSt), i < g.s.devs.length → pc g i = some (Sched.disabled g.s.flavor) →
    NoRearm i g evs → ClockOK g evs → Calm i g evs
  | [], _, _, _, _, _ => trivial
  | e :: r, g, hi, hp, hn, hc => by
    obtain ⟨n1, n2⟩ := hn
    obtain ⟨c1, c2⟩ := hc
    have hnd : ¬ due g i := by
      rintro ⟨a, ha, hd⟩
      have : a.pendingClaim = Sched.disabled g.s.flavor := by
        simp only [pc, ha, Option.map_some] at hp; exact Option.some.inj hp
      rw [this, disabled_not_due _ _ c1] at hd; cases hd
    have hce : Calm i g [e] := ⟨n1, by cases e <;> first | exact hnd | trivial, trivial⟩
    have h1 := calm_pc i [e] g hi hce
    simp only [run, List.foldl_cons, List.foldl_nil] at h1
    refine ⟨n1, by cases e <;> first | exact hnd | trivial, ?_⟩
    exact idle_calm i r (stepEv g e) (by rw [stepEv_devs_length]; exact hi) (by rw [h1, hp, stepEv_flavor]) n2 c2

theorem run_append (g : GSt) (a b : List Ev) : run g (a ++ b) = run (run g a) b := by
  simp [run, List.foldl_append]

theorem run_flavor (g : GSt) (evs : List Ev) : (run g evs).s.flavor = g.s.flavor := (run_keeps evs g).1.2.1

theorem run_devs_length (g : GSt) (evs : List Ev) : (run g evs).s.devs.length = g.s.devs.length := by
  have := congrArg List.length (run_keeps evs g).1.2.2.2
  simpa using this

end N2k.GF
