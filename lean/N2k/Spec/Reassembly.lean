import N2k.Model.Rx
/-!
# Specification of reassembly (property C02), written from the property statement

* what a delivered message must be in terms of RECEIVED FRAMES ONLY: `SFDelivery` (single frame) and
  `FPDelivery` over an in-sequence chain `IsChain` (one PGN, one source, one sequence id, counters 0..k, first frame
  announcing `L ≤ 223`, payload = concatenation of the frame payloads truncated to `L`);
* the abstract reassembler `Spec.step` / `Spec.delivered`: per (PGN, source) the frames of the unfinished message;
  a new first frame supersedes, an out-of-sequence frame discards the message as a whole, a complete message is
  delivered exactly once. It knows nothing about slots or time.
-/
namespace N2k.Rx

/-- payload bytes a fast-packet frame contributes: first frame from byte 2, later ones from byte 1, up to the DLC -/
def payloadOf (first : Bool) (f : Frame) : List Nat := (f.b.take f.len).drop (if first then 2 else 1)

def fpBytes : List Frame → List Nat
  | [] => []
  | f0 :: rest => payloadOf true f0 ++ rest.flatMap (payloadOf false)

/-- the handled frames of a history that belong to one (PGN, source) -/
def keyHist (H : List Frame) (pgn src : Nat) : List Frame := H.filter (fun g => g.pgn == pgn && g.src == src)

/-- `w` is an in-sequence fast-packet chain starting with the first frame `f0` -/
structure IsChain (f0 : Frame) (w : List Frame) : Prop where
  head : w.head? = some f0
  first : f0.byte 0 % 32 = 0
  same : ∀ g ∈ w, g.pgn = f0.pgn ∧ g.src = f0.src
  ctr : ∀ k (hk : k < w.length), (w[k]).byte 0 = f0.byte 0 + k
  cont : ∀ k (hk : k < w.length), 0 < k → (w[k]).byte 0 % 32 ≠ 0

def chainMsg (f0 : Frame) (w : List Frame) : Msg :=
  ⟨f0.prio % 8, f0.pgn, f0.src, f0.dst, f0.byte 1, (fpBytes w).take (f0.byte 1)⟩

/-- `m` is the content of the complete chain `w` -/
def FPDelivery (w : List Frame) (m : Msg) : Prop :=
  ∃ f0, IsChain f0 w ∧ f0.byte 1 ≤ 223 ∧ f0.byte 1 ≤ (fpBytes w).length ∧ m = chainMsg f0 w

/-- a single-frame message: length = DLC -/
def SFDelivery (f : Frame) (m : Msg) : Prop := m = ⟨f.prio % 8, f.pgn, f.src, f.dst, f.len, f.b.take f.len⟩

/-- what the frame `f`, last of the handled history `H`, may deliver: the single frame itself, or a complete chain
that is a contiguous tail of the frames of its (PGN, source) – no other frame of that sender and PGN in between -/
def Delivery (isFP : Nat → Bool) (H : List Frame) (f : Frame) (m : Msg) : Prop :=
  (isFP f.pgn = false ∧ SFDelivery f m) ∨
  (isFP f.pgn = true ∧ ∃ w, w <:+ keyHist H f.pgn f.src ∧ w.getLast? = some f ∧ FPDelivery w m)

namespace Spec

/-- unfinished message per (PGN, source): the frames received for it so far (`[]` = none) -/
abbrev SState := Nat → Nat → List Frame

def empty : SState := fun _ _ => []

def sset (S : SState) (pgn src : Nat) (w : List Frame) : SState :=
  fun p s => if p = pgn ∧ s = src then w else S p s

/-- all announced bytes have arrived and the announced length is deliverable -/
def complete (f0 : Frame) (w : List Frame) : Bool :=
  decide (f0.byte 1 ≤ 223) && decide (f0.byte 1 ≤ (fpBytes w).length)

/-- the continuation frame `f` is the next one of `w`: same sequence id, next frame counter -/
def inSeq (f0 : Frame) (w : List Frame) (f : Frame) : Bool :=
  decide (f.byte 0 / 32 = f0.byte 0 / 32) && decide (f.byte 0 % 32 = w.length)

def step (isFP : Nat → Bool) (S : SState) (f : Frame) : SState × Option Msg :=
  if isFP f.pgn then
    if f.byte 0 % 32 = 0 then
      -- a first frame supersedes an unfinished message of the same PGN and sender
      if complete f [f] then (sset S f.pgn f.src [], some (chainMsg f [f]))
      else (sset S f.pgn f.src [f], none)
    else
      match S f.pgn f.src with
      | [] => (S, none)                                   -- no first frame: ignored
      | f0 :: t =>
        if inSeq f0 (f0 :: t) f then
          if complete f0 (f0 :: t ++ [f]) then (sset S f.pgn f.src [], some (chainMsg f0 (f0 :: t ++ [f])))
          else (sset S f.pgn f.src (f0 :: t ++ [f]), none)
        else (sset S f.pgn f.src [], none)                -- missing / out-of-sequence frame: discarded as a whole
  else (S, some ⟨f.prio % 8, f.pgn, f.src, f.dst, f.len, f.b.take f.len⟩)

def outputs (isFP : Nat → Bool) (S : SState) : List Frame → List (Option Msg)
  | [] => []
  | f :: rest => (step isFP S f).2 :: outputs isFP (step isFP S f).1 rest

end Spec
end N2k.Rx
