#include "NMEA2000.h"
#include <stdio.h>
#include <time.h>
static uint64_t vnow=5000;
extern "C" int clock_gettime(clockid_t, struct timespec*ts){ ts->tv_sec=vnow/1000; ts->tv_nsec=(vnow%1000)*1000000L; return 0; }
extern "C" uint32_t millis(){ return 42; }
struct Bus: public tNMEA2000 {
 bool CANSendFrame(unsigned long id, unsigned char len, const unsigned char *buf, bool) override { printf("t=%llu id=%08lx b0=%02x b1=%02x\n",(unsigned long long)vnow,id,buf[0],buf[1]); return true;}
 bool CANOpen() override {return true;} bool CANGetFrame(unsigned long&,unsigned char&,unsigned char*) override {return false;} };
int main(){ Bus b; b.SetMode(tNMEA2000::N2km_NodeOnly,22); b.EnableForward(false); for(int i=0;i<72000;i++){ b.ParseMessages(); vnow++; } printf("sizeof sched=%zu\n",sizeof(tN2kScheduler)); }
