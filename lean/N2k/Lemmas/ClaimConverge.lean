import N2k.Lemmas.ClaimArb
import N2k.Lemmas.ClaimRefine
/-! Exact reaction of a one-device library instance to a claim frame, and the two-node contest. -/
namespace N2k.Bus
open N2k.Send N2k.Time N2k.Claim

/-- an open, well-formed instance with exactly one device: NAME `nm` at address `a` -/
def LibAt (x : Inst) (nm a : Nat) : Prop :=
  LibOK x ∧ x.s.openState = 3 ∧ x.s.devs.map (fun d => (d.name, d.source)) = [(nm, a)]

theorem LibAt.dev {x : Inst} {nm a : Nat} (h : LibAt x nm a) :
    ∃ d, x.s.devs = [d] ∧ d.name = nm ∧ d.source = a := by
  obtain ⟨_, _, hm⟩ := h
  cases hd : x.s.devs with
  | nil => rw [hd] at hm; cases hm
  | cons d t =>
    rw [hd] at hm
    cases t with
    | nil => simp at hm; exact ⟨d, rfl, hm.1, hm.2⟩
    | cons e t' => simp at hm

theorem LibAt.name_lt {x : Inst} {nm a : Nat} (h : LibAt x nm a) : nm < 2^64 := by
  obtain ⟨d, hd, hdn, _⟩ := h.dev
  rw [← hdn]; exact (h.1.devs d (by rw [hd]; simp)).1

theorem hb_map (y : Inst) : (heartbeatPass y).s.devs.map (fun d => (d.name, d.source)) = y.s.devs.map (fun d => (d.name, d.source)) := by
  unfold heartbeatPass
  split
  · simp only [List.map_map]
    apply List.map_congr_left
    intro d _
    simp [isACS_name, isACS_source]
  · rfl

theorem hb_sent (y : Inst) : (heartbeatPass y).s.drv.sent = y.s.drv.sent := by
  unfold heartbeatPass; split <;> rfl

theorem hb_open (y : Inst) : (heartbeatPass y).s.openState = y.s.openState := by
  unfold heartbeatPass; split <;> rfl

/-- what a claim frame does to an open well-formed instance -/
theorem libRx_eq (x : Inst) (ok : LibOK x) (ho : x.s.openState = 3) (c : Iso.Claim) (hn : c.1 < 2^64) (ha : c.2 < 256) :
    (libParse x [.frame (frameOfClaim c)]).1 = heartbeatPass (handleClaim (clearSent x) c.2 c.1) := by
  unfold libParse
  simp only
  rw [parse_open (clearSent x) ho (libOK_clearSent ok).send]
  simp only [List.foldl_cons, List.foldl_nil, rxOne, rxFrame_eq, libDecode_frameOfClaim c.1 c.2 hn ha]

theorem libAt_clear {x : Inst} {nm a : Nat} (h : LibAt x nm a) : LibAt (clearSent x) nm a :=
  ⟨libOK_clearSent h.1, h.2.1, h.2.2⟩

/-- the three reactions: not my address / I keep it and say so / I move on and claim the new address -/
theorem lib_react (x : Inst) (nm a : Nat) (h : LibAt x nm a) (c : Iso.Claim) (hn : c.1 < 2^64) (hc : c.2 < 256) :
    let r := libParse x [.frame (frameOfClaim c)]
    (c.2 ≠ a → LibAt r.1 nm a ∧ r.2 = []) ∧
    (a ≤ 251 → c.2 = a → nm < c.1 → LibAt r.1 nm a ∧ r.2 = [frameOfClaim (nm, a)]) ∧
    (a ≤ 251 → c.2 = a → c.1 < nm → ∃ a', a' ≠ a ∧ a' < 256 ∧ LibAt r.1 nm a' ∧ r.2 = [frameOfClaim (nm, a')]) := by
  intro r
  have hc' := libAt_clear h
  obtain ⟨d, hdv, hdn, hds⟩ := hc'.dev
  have hr1 : r.1 = heartbeatPass (handleClaim (clearSent x) c.2 c.1) := libRx_eq x h.1 h.2.1 c hn hc
  have hr2 : r.2 = r.1.s.drv.sent := rfl
  have hsent0 : (clearSent x).s.drv.sent = [] := rfl
  have hpost := handleClaim_post (clearSent x) hc'.1 hc'.2.1 c.2 c.1
  have hopen : (handleClaim (clearSent x) c.2 c.1).s.openState = 3 := ann_open hpost.2 hc'.2.1
  have hbok := (heartbeatPass_post _ hpost.1).1
  have hd0 : (clearSent x).s.devs[0]? = some d := by rw [hdv]; rfl
  refine ⟨fun hna => ?_, fun ha251 hea hlt => ?_, fun ha251 hea hgt => ?_⟩
  · have hsame : handleClaim (clearSent x) c.2 c.1 = clearSent x := by
      unfold handleClaim
      by_cases h254 : c.2 = Gen.nullCanBusAddress
      · rw [if_pos h254]
      · rw [if_neg h254]
        have : findSourceDev (clearSent x).s.devs c.2 = none := by
          unfold findSourceDev; rw [hdv]; split
          · simp [List.findIdx?_cons, hds, Ne.symm hna]
          · rfl
        rw [this]
    rw [hr2, hr1, hsame]
    exact ⟨⟨(heartbeatPass_post _ hc'.1).1, by rw [hb_open]; exact hc'.2.1, by rw [hb_map]; exact hc'.2.2⟩, by rw [hb_sent]; exact hsent0⟩
  · have hf : findSourceDev (clearSent x).s.devs c.2 = some 0 := by
      unfold findSourceDev; rw [hdv, if_pos (by omega)]; simp [List.findIdx?_cons, hds, hea]
    have arb := (handleClaim_arbitration (clearSent x) hc'.1 hc'.2.1 c.2 c.1 0 d (by omega) hf hd0).1 (by rw [hdn]; exact hlt)
    rw [hr2, hr1]
    refine ⟨⟨hbok, by rw [hb_open]; exact hopen, by rw [hb_map, arb.1]; exact hc'.2.2⟩, ?_⟩
    rw [hb_sent, arb.2, hsent0, hdn, hea]; rfl
  · have hf : findSourceDev (clearSent x).s.devs c.2 = some 0 := by
      unfold findSourceDev; rw [hdv, if_pos (by omega)]; simp [List.findIdx?_cons, hds, hea]
    have arb := (handleClaim_arbitration (clearSent x) hc'.1 hc'.2.1 c.2 c.1 0 d (by omega) hf hd0).2 (by rw [hdn]; exact hgt)
    simp only at arb
    obtain ⟨hrne, hrv, ⟨d', hd', hd'n, hd's⟩, _, hsent⟩ := arb
    refine ⟨d'.source, by rw [hd's, ← hea]; exact hrne, (hpost.1.dev hd').src_lt, ?_, ?_⟩
    · refine ⟨by rw [hr1]; exact hbok, by rw [hr1, hb_open]; exact hopen, ?_⟩
      rw [hr1, hb_map]
      have hlen : (handleClaim (clearSent x) c.2 c.1).s.devs.length = 1 := by
        obtain ⟨_, _, hl, _⟩ := hpost.2; rw [hl, hdv]; rfl
      cases hdl : (handleClaim (clearSent x) c.2 c.1).s.devs with
      | nil => rw [hdl] at hlen; cases hlen
      | cons e t =>
        rw [hdl] at hlen hd'
        cases t with
        | nil => simp at hd'; subst hd'; simp [hd'n, hdn]
        | cons e' t' => simp at hlen
    · rw [hr2, hr1, hb_sent, hsent, hsent0, hd's, hdn]; rfl

/-! ## two nodes: a one-device library instance (node 0) and a foreign node (node 1) -/

def okClaim (c : Iso.Claim) : Prop := c.1 < 2^64 ∧ c.2 < 256

/-- node 0 = library instance with NAME `n0` at `A`, node 1 = the started foreign node `f`; pending claims `in0`, `in1` -/
def Two (b : Bus) (n0 A : Nat) (f : Iso.Node) (in0 in1 : List Iso.Claim) : Prop :=
  b.n = 2 ∧ (∃ x, (b.node 0).kind = .lib x ∧ LibAt x n0 A) ∧ (b.node 0).inbox = in0.map frameOfClaim ∧
  (b.node 1).kind = .foreign f ∧ f.started = true ∧ (b.node 1).inbox = in1.map frameOfClaim ∧
  (∀ c ∈ in0, okClaim c) ∧ (∀ c ∈ in1, okClaim c)

theorem two_idle0 {b : Bus} {n0 A : Nat} {f : Iso.Node} {in1 : List Iso.Claim} (h : Two b n0 A f [] in1) :
    step b (.deliver 0) = b := by
  obtain ⟨_, _, h0, _⟩ := h
  simp only [step]; split
  · rw [h0]; rfl
  · rfl

theorem two_idle1 {b : Bus} {n0 A : Nat} {f : Iso.Node} {in0 : List Iso.Claim} (h : Two b n0 A f in0 []) :
    step b (.deliver 1) = b := by
  obtain ⟨_, _, _, _, _, h1, _⟩ := h
  simp only [step]; split
  · rw [h1]; rfl
  · rfl

theorem step_far (b : Bus) (i : Nat) (h : ¬ i < b.n) : step b (.deliver i) = b := by
  simp only [step, h, ↓reduceIte]

/-- node 0 processes the claim `c` -/
theorem two_deliver0 {b : Bus} {n0 A : Nat} {f : Iso.Node} {c : Iso.Claim} {r0 in1 : List Iso.Claim}
    (h : Two b n0 A f (c :: r0) in1) :
    (c.2 ≠ A → Two (step b (.deliver 0)) n0 A f r0 in1) ∧
    (A ≤ 251 → c.2 = A → n0 < c.1 → Two (step b (.deliver 0)) n0 A f r0 (in1 ++ [(n0, A)])) ∧
    (A ≤ 251 → c.2 = A → c.1 < n0 → ∃ A', A' ≠ A ∧ Two (step b (.deliver 0)) n0 A' f r0 (in1 ++ [(n0, A')])) := by
  obtain ⟨hn, ⟨x, hk, hx⟩, h0, hk1, hst, h1, hb0, hb1⟩ := h
  have hcok := hb0 c (List.mem_cons_self)
  have hr0 : ∀ c' ∈ r0, okClaim c' := fun c' hc' => hb0 c' (List.mem_cons_of_mem _ hc')
  have hlt : 0 < b.n := by omega
  have hstep : step b (.deliver 0) = act b 0 (kindRx b.next (b.node 0).kind (frameOfClaim c)) (r0.map frameOfClaim) := by
    simp only [step, hlt, ↓reduceIte, h0, List.map_cons]
  have hkr : kindRx b.next (b.node 0).kind (frameOfClaim c) =
      (.lib (libParse x [.frame (frameOfClaim c)]).1, (libParse x [.frame (frameOfClaim c)]).2) := by rw [hk]; rfl
  have hon : onBus (b.node 1).kind = true := by rw [hk1]; exact hst
  have key : ∀ (A' : Nat) (out : List Iso.Claim), LibAt (libParse x [.frame (frameOfClaim c)]).1 n0 A' →
      (libParse x [.frame (frameOfClaim c)]).2 = out.map frameOfClaim → (∀ c' ∈ out, okClaim c') →
      Two (step b (.deliver 0)) n0 A' f r0 (in1 ++ out) := by
    intro A' out hl ho hoo
    rw [hstep, hkr]
    refine ⟨hn, ⟨_, by rw [act_node_self], hl⟩, by rw [act_node_self], ?_, hst, ?_, hr0, ?_⟩
    · rw [act_kind_other b 0 1 (by omega)]; exact hk1
    · rw [act_node_other b 0 1 (by omega), if_pos hon]; simp [h1, ho]
    · intro c' hc'; rcases List.mem_append.mp hc' with h | h
      · exact hb1 c' h
      · exact hoo c' h
  have re := lib_react x n0 A hx c hcok.1 hcok.2
  simp only at re
  refine ⟨fun hne => ?_, fun ha he hl => ?_, fun ha he hl => ?_⟩
  · have := re.1 hne
    simpa using key A [] this.1 (by rw [this.2]; rfl) (by simp)
  · have := re.2.1 ha he hl
    exact key A [(n0, A)] this.1 (by rw [this.2]; rfl)
      (by intro c' hc'; simp at hc'; subst hc'; exact ⟨hx.name_lt, by show A < 256; omega⟩)
  · obtain ⟨A', hne, hlt', hl', ho⟩ := re.2.2 ha he hl
    refine ⟨A', hne, key A' [(n0, A')] hl' (by rw [ho]; rfl) ?_⟩
    intro c' hc'; simp at hc'; subst hc'
    exact ⟨hl'.name_lt, hlt'⟩

theorem act_next (b : Bus) (i : Nat) (r : Kind × List Frame) (inb : List Frame) : (act b i r inb).next = b.next := rfl

theorem step_deliver_next (b : Bus) (i : Nat) : (step b (.deliver i)).next = b.next := by
  simp only [step]; split
  · split <;> rfl
  · rfl

/-- node 1 (the foreign node) processes the claim `c` -/
theorem two_deliver1 {b : Bus} {n0 A : Nat} {f : Iso.Node} {c : Iso.Claim} {in0 r1 : List Iso.Claim}
    (h : Two b n0 A f in0 (c :: r1)) (hfn : f.name < 2^64) (hfa : f.addr < 256) (hnx : b.next f < 256) :
    (¬ (c.2 = f.addr ∧ c.2 ≤ 251) → Two (step b (.deliver 1)) n0 A f in0 r1) ∧
    (c.2 = f.addr → c.2 ≤ 251 → f.name < c.1 → Two (step b (.deliver 1)) n0 A f (in0 ++ [(f.name, f.addr)]) r1) ∧
    (c.2 = f.addr → c.2 ≤ 251 → ¬ f.name < c.1 →
      Two (step b (.deliver 1)) n0 A { f with addr := b.next f } (in0 ++ [(f.name, b.next f)]) r1) := by
  obtain ⟨hn, ⟨x, hk, hx⟩, h0, hk1, hst, h1, hb0, hb1⟩ := h
  have hcok := hb1 c (List.mem_cons_self)
  have hr1 : ∀ c' ∈ r1, okClaim c' := fun c' hc' => hb1 c' (List.mem_cons_of_mem _ hc')
  have hlt : 1 < b.n := by omega
  have hstep : step b (.deliver 1) = act b 1 (kindRx b.next (b.node 1).kind (frameOfClaim c)) (r1.map frameOfClaim) := by
    simp only [step, hlt, ↓reduceIte, h1, List.map_cons]
  have hkr : kindRx b.next (b.node 1).kind (frameOfClaim c) = foreignOut (Iso.onClaim b.next f c) := by
    rw [hk1]; simp only [kindRx, isoDecode_frameOfClaim c.1 c.2 hcok.1 hcok.2]
  have hon : onBus (b.node 0).kind = true := by rw [hk]; simp [onBus, hx.2.1]
  have key : ∀ (f' : Iso.Node) (out : List Iso.Claim), Iso.onClaim b.next f c = (f', out) → f'.started = true →
      (∀ c' ∈ out, okClaim c') → Two (step b (.deliver 1)) n0 A f' (in0 ++ out) r1 := by
    intro f' out ho hs hoo
    rw [hstep, hkr, ho]
    refine ⟨hn, ⟨x, ?_, hx⟩, ?_, by rw [act_node_self]; rfl, hs, by rw [act_node_self], ?_, hr1⟩
    · rw [act_kind_other b 1 0 (by omega)]; exact hk
    · rw [act_node_other b 1 0 (by omega), if_pos hon]; simp [h0, foreignOut]
    · intro c' hc'; rcases List.mem_append.mp hc' with h | h
      · exact hb0 c' h
      · exact hoo c' h
  refine ⟨fun hne => ?_, fun he hl hlt' => ?_, fun he hl hge => ?_⟩
  · have : Iso.onClaim b.next f c = (f, []) := by
      unfold Iso.onClaim Iso.maxAddr
      rw [if_neg (fun hh => hne ⟨hh.2.1, hh.2.2⟩)]
    simpa using key f [] this hst (by simp)
  · have : Iso.onClaim b.next f c = (f, [(f.name, f.addr)]) := by
      unfold Iso.onClaim Iso.maxAddr
      rw [if_pos ⟨hst, he, hl⟩, if_pos hlt']
    exact key f _ this hst (by intro c' hc'; simp at hc'; subst hc'; exact ⟨hfn, hfa⟩)
  · have : Iso.onClaim b.next f c = ({ f with addr := b.next f }, [(f.name, b.next f)]) := by
      unfold Iso.onClaim Iso.maxAddr
      rw [if_pos ⟨hst, he, hl⟩, if_neg hge]
    exact key _ _ this hst (by intro c' hc'; simp at hc'; subst hc'; exact ⟨hfn, hnx⟩)

/-! ## the contest "both hold `a`, the two claims cross": library NAME lower -/

/-- remaining deliveries `k` ↦ shape of the bus (library instance `n0` lower than the foreign node `f0` at `a`) -/
def PhL (n0 : Nat) (f0 : Iso.Node) (nx : Iso.Node → Nat) (k : Nat) (b : Bus) : Prop :=
  let a := f0.addr; let n1 := f0.name; let a' := nx f0; let f1 : Iso.Node := { f0 with addr := nx f0 }
  b.next = nx ∧
  match k with
  | 4 => Two b n0 a f0 [(n1, a)] [(n0, a)]
  | 3 => Two b n0 a f0 [] [(n0, a), (n0, a)] ∨ Two b n0 a f1 [(n1, a), (n1, a')] []
  | 2 => Two b n0 a f1 [(n1, a')] [(n0, a)]
  | 1 => Two b n0 a f1 [] [(n0, a)] ∨ Two b n0 a f1 [(n1, a')] []
  | 0 => Two b n0 a f1 [] []
  | _ => False

/-- a delivery is idle (empty inbox, nothing changes) or consumes exactly one of the remaining deliveries -/
def Progress (P : Nat → Bus → Prop) (k : Nat) (b : Bus) (i : Nat) : Prop :=
  (step b (.deliver i) = b ∧ (i < b.n → (b.node i).inbox = [])) ∨
  (∃ k', k = k' + 1 ∧ P k' (step b (.deliver i)) ∧ i < b.n ∧ (b.node i).inbox ≠ [])

theorem two_inbox0 {b : Bus} {n0 A : Nat} {f : Iso.Node} {in0 in1 : List Iso.Claim} (h : Two b n0 A f in0 in1) :
    (b.node 0).inbox = in0.map frameOfClaim := h.2.2.1
theorem two_inbox1 {b : Bus} {n0 A : Nat} {f : Iso.Node} {in0 in1 : List Iso.Claim} (h : Two b n0 A f in0 in1) :
    (b.node 1).inbox = in1.map frameOfClaim := h.2.2.2.2.2.1

theorem phL_step (n0 : Nat) (f0 : Iso.Node) (nx : Iso.Node → Nat) (hlt : n0 < f0.name) (hn1 : f0.name < 2^64)
    (ha : f0.addr ≤ 251) (hnx : ∀ f, nx f < 256) (hne : nx f0 ≠ f0.addr) (k : Nat) (b : Bus) (h : PhL n0 f0 nx k b) (i : Nat) :
    Progress (PhL n0 f0 nx) k b i := by
  obtain ⟨hnext, hk⟩ := h
  have hn2 : ∀ {A f in0 in1}, Two b n0 A f in0 in1 → b.n = 2 := fun h => h.1
  have nxt : (step b (.deliver i)).next = nx := by rw [step_deliver_next]; exact hnext
  have idle0 : ∀ {A f in1}, Two b n0 A f [] in1 → Progress (PhL n0 f0 nx) k b 0 :=
    fun h => Or.inl ⟨two_idle0 h, fun _ => by rw [two_inbox0 h]; rfl⟩
  have idle1 : ∀ {A f in0}, Two b n0 A f in0 [] → Progress (PhL n0 f0 nx) k b 1 :=
    fun h => Or.inl ⟨two_idle1 h, fun _ => by rw [two_inbox1 h]; rfl⟩
  have far : ∀ {A f in0 in1}, Two b n0 A f in0 in1 → 2 ≤ i → Progress (PhL n0 f0 nx) k b i :=
    fun h hi => Or.inl ⟨step_far b i (by rw [hn2 h]; omega), fun hh => by rw [hn2 h] at hh; omega⟩
  have hnxb : b.next f0 = nx f0 := by rw [hnext]
  match k, hk with
  | 4, hk =>
    rcases Nat.lt_or_ge i 2 with hi | hi
    · rcases (by omega : i = 0 ∨ i = 1) with rfl | rfl
      · refine Or.inr ⟨3, rfl, ⟨nxt, Or.inl ?_⟩, by rw [hn2 hk]; omega, by rw [two_inbox0 hk]; simp⟩
        simpa using (two_deliver0 hk).2.1 ha rfl hlt
      · refine Or.inr ⟨3, rfl, ⟨nxt, Or.inr ?_⟩, by rw [hn2 hk]; omega, by rw [two_inbox1 hk]; simp⟩
        have := (two_deliver1 hk hn1 (by omega) (by rw [hnxb]; exact hnx f0)).2.2 rfl ha (by show ¬ f0.name < n0; omega)
        rw [hnxb] at this; simpa using this
    · exact far hk hi
  | 3, hk =>
    rcases hk with hk | hk
    · rcases Nat.lt_or_ge i 2 with hi | hi
      · rcases (by omega : i = 0 ∨ i = 1) with rfl | rfl
        · exact idle0 hk
        · refine Or.inr ⟨2, rfl, ⟨nxt, ?_⟩, by rw [hn2 hk]; omega, by rw [two_inbox1 hk]; simp⟩
          have := (two_deliver1 hk hn1 (by omega) (by rw [hnxb]; exact hnx f0)).2.2 rfl ha (by show ¬ f0.name < n0; omega)
          rw [hnxb] at this; simpa using this
      · exact far hk hi
    · rcases Nat.lt_or_ge i 2 with hi | hi
      · rcases (by omega : i = 0 ∨ i = 1) with rfl | rfl
        · refine Or.inr ⟨2, rfl, ⟨nxt, ?_⟩, by rw [hn2 hk]; omega, by rw [two_inbox0 hk]; simp⟩
          simpa using (two_deliver0 hk).2.1 ha rfl hlt
        · exact idle1 hk
      · exact far hk hi
  | 2, hk =>
    rcases Nat.lt_or_ge i 2 with hi | hi
    · rcases (by omega : i = 0 ∨ i = 1) with rfl | rfl
      · refine Or.inr ⟨1, rfl, ⟨nxt, Or.inl ?_⟩, by rw [hn2 hk]; omega, by rw [two_inbox0 hk]; simp⟩
        exact (two_deliver0 hk).1 hne
      · refine Or.inr ⟨1, rfl, ⟨nxt, Or.inr ?_⟩, by rw [hn2 hk]; omega, by rw [two_inbox1 hk]; simp⟩
        exact (two_deliver1 hk hn1 (hnx f0) (by rw [hnext]; exact hnx _)).1 (fun hh => hne hh.1.symm)
    · exact far hk hi
  | 1, hk =>
    rcases hk with hk | hk
    · rcases Nat.lt_or_ge i 2 with hi | hi
      · rcases (by omega : i = 0 ∨ i = 1) with rfl | rfl
        · exact idle0 hk
        · refine Or.inr ⟨0, rfl, ⟨nxt, ?_⟩, by rw [hn2 hk]; omega, by rw [two_inbox1 hk]; simp⟩
          exact (two_deliver1 hk hn1 (hnx f0) (by rw [hnext]; exact hnx _)).1 (fun hh => hne hh.1.symm)
      · exact far hk hi
    · rcases Nat.lt_or_ge i 2 with hi | hi
      · rcases (by omega : i = 0 ∨ i = 1) with rfl | rfl
        · refine Or.inr ⟨0, rfl, ⟨nxt, ?_⟩, by rw [hn2 hk]; omega, by rw [two_inbox0 hk]; simp⟩
          exact (two_deliver0 hk).1 hne
        · exact idle1 hk
      · exact far hk hi
  | 0, hk =>
    rcases Nat.lt_or_ge i 2 with hi | hi
    · rcases (by omega : i = 0 ∨ i = 1) with rfl | rfl
      · exact idle0 hk
      · exact idle1 hk
    · exact far hk hi

/-- number of deliveries of the schedule that found a pending frame -/
def eff (b : Bus) : List Nat → Nat
  | [] => 0
  | i :: t => (if i < b.n ∧ (b.node i).inbox ≠ [] then 1 else 0) + eff (step b (.deliver i)) t

theorem converge_run (P : Nat → Bus → Prop) (hstep : ∀ k b i, P k b → Progress P k b i) :
    ∀ (evs : List Nat) (k : Nat) (b : Bus), P k b → ∃ k', P k' (run b (evs.map Ev.deliver)) ∧ k' + eff b evs = k
  | [], k, b, h => ⟨k, h, rfl⟩
  | i :: t, k, b, h => by
    simp only [List.map_cons, run, List.foldl_cons, eff]
    rcases hstep k b i h with ⟨hs, hidle⟩ | ⟨k', hk, hp, hi, hne⟩
    · rw [hs]
      obtain ⟨k2, h2, he⟩ := converge_run P hstep t k b h
      refine ⟨k2, h2, ?_⟩
      have : ¬ (i < b.n ∧ (b.node i).inbox ≠ []) := fun hh => hh.2 (hidle hh.1)
      rw [if_neg this]; simpa [run] using he
    · obtain ⟨k2, h2, he⟩ := converge_run P hstep t k' _ hp
      refine ⟨k2, h2, ?_⟩
      rw [if_pos ⟨hi, hne⟩]; omega

theorem phL_zero {n0 : Nat} {f0 : Iso.Node} {nx : Iso.Node → Nat} {b : Bus} (h : PhL n0 f0 nx 0 b) :
    quiescent b ∧ claimants (b.node 0).kind = [(n0, f0.addr)] ∧ claimants (b.node 1).kind = [(f0.name, nx f0)] := by
  obtain ⟨_, hn, ⟨x, hk, hx⟩, h0, hk1, hst, h1, _⟩ := h
  refine ⟨fun i hi => ?_, ?_, ?_⟩
  · rw [hn] at hi
    rcases (by omega : i = 0 ∨ i = 1) with rfl | rfl
    · rw [h0]; rfl
    · rw [h1]; rfl
  · rw [hk]; simp only [claimants, hx.2.1, ↓reduceIte]; exact hx.2.2
  · rw [hk1]; simp only [claimants]; rw [if_pos hst]

theorem phL_pending {n0 : Nat} {f0 : Iso.Node} {nx : Iso.Node → Nat} {b : Bus} {k : Nat} (h : PhL n0 f0 nx (k + 1) b) :
    ∃ i, i < b.n ∧ (b.node i).inbox ≠ [] := by
  obtain ⟨_, hk⟩ := h
  have p0 : ∀ {A f c r in1}, Two b n0 A f (c :: r) in1 → ∃ i, i < b.n ∧ (b.node i).inbox ≠ [] :=
    fun h => ⟨0, by rw [h.1]; omega, by rw [two_inbox0 h]; simp⟩
  have p1 : ∀ {A f c r in0}, Two b n0 A f in0 (c :: r) → ∃ i, i < b.n ∧ (b.node i).inbox ≠ [] :=
    fun h => ⟨1, by rw [h.1]; omega, by rw [two_inbox1 h]; simp⟩
  match k, hk with
  | 3, hk => exact p0 hk
  | 2, hk => rcases hk with hk | hk; exact p1 hk; exact p0 hk
  | 1, hk => exact p0 hk
  | 0, hk => rcases hk with hk | hk; exact p1 hk; exact p0 hk

/-! ## mirror case: the library device has the higher NAME and moves -/

/-- `GetNextAddress` of a device without siblings: the next address (251 wraps to 0), 254 at the end of the search -/
def nxt (a e : Nat) : Nat := if a = e then 254 else (a + 1) % 252

theorem nxt_ne (a e : Nat) (ha : a ≤ 251) : nxt a e ≠ a := by unfold nxt; split <;> omega
theorem nxt_lt (a e : Nat) : nxt a e < 256 := by unfold nxt; split <;> omega

theorem search_nosib (a e : Nat) (ha : a ≤ 251) (he : e ≤ 251) : (search false [] searchFuel a e).source = nxt a e := by
  have hd : dist a e ≤ 251 := by unfold dist; omega
  have p := search_post false [] (dist a e) searchFuel a e ha he rfl (by unfold searchFuel; omega)
  unfold nxt
  rcases p.result with ⟨h254, hall⟩ | ⟨k, h1, h2, hr, _, hall⟩
  · by_cases hae : a = e
    · rw [if_pos hae]; exact h254
    · have : 1 ≤ dist a e := by unfold dist; omega
      have := hall 1 (by omega) this
      simp at this
  · by_cases hk : k = 1
    · subst hk
      have : a ≠ e := by intro h; subst h; unfold dist at h2; omega
      rw [if_neg this, hr]; rfl
    · have := hall 1 (by omega) (by omega)
      simp at this

/-- exact move of a one-device instance that loses the arbitration: address, frame, and the change is latched -/
theorem lib_move_exact (x : Inst) (nm a : Nat) (d : Dev) (h : LibAt x nm a) (hd : x.s.devs = [d]) (ha : a ≤ 251)
    (c : Iso.Claim) (hn : c.1 < 2^64) (hc : c.2 < 256) (hea : c.2 = a) (hgt : c.1 < nm) :
    let r := libParse x [.frame (frameOfClaim c)]
    LibAt r.1 nm (nxt a d.endSource) ∧ r.2 = [frameOfClaim (nm, nxt a d.endSource)] ∧ r.1.addressChanged = true := by
  intro r
  have hc' := libAt_clear h
  have hdv : (clearSent x).s.devs = [d] := hd
  obtain ⟨d1, hd1, hdn, hds⟩ := hc'.dev
  rw [hdv] at hd1; cases hd1
  have hr1 : r.1 = heartbeatPass (handleClaim (clearSent x) c.2 c.1) := libRx_eq x h.1 h.2.1 c hn hc
  have hr2 : r.2 = r.1.s.drv.sent := rfl
  have hsent0 : (clearSent x).s.drv.sent = [] := rfl
  have hpost := handleClaim_post (clearSent x) hc'.1 hc'.2.1 c.2 c.1
  have hopen : (handleClaim (clearSent x) c.2 c.1).s.openState = 3 := ann_open hpost.2 hc'.2.1
  have hbok := (heartbeatPass_post _ hpost.1).1
  have hd0 : (clearSent x).s.devs[0]? = some d := by rw [hdv]; rfl
  have hf : findSourceDev (clearSent x).s.devs c.2 = some 0 := by
    unfold findSourceDev; rw [hdv, if_pos (by omega)]; simp [List.findIdx?_cons, hds, hea]
  have arb := (handleClaim_arbitration (clearSent x) hc'.1 hc'.2.1 c.2 c.1 0 d (by omega) hf hd0).2 (by rw [hdn]; exact hgt)
  simp only at arb
  obtain ⟨_, _, ⟨d', hd', hd'n, hd's⟩, hchg, hsent⟩ := arb
  have dok := hc'.1.dev hd0
  have hsib : siblings (clearSent x).s.devs 0 = [] := by rw [hdv]; rfl
  have hsrc : d'.source = nxt a d.endSource := by
    rw [hd's, hsib, hds]; exact search_nosib a d.endSource ha (by have := dok.2.2 (by omega); exact this)
  refine ⟨⟨by rw [hr1]; exact hbok, by rw [hr1, hb_open]; exact hopen, ?_⟩, ?_, ?_⟩
  · rw [hr1, hb_map]
    have hlen : (handleClaim (clearSent x) c.2 c.1).s.devs.length = 1 := by
      obtain ⟨_, _, hl, _⟩ := hpost.2; rw [hl, hdv]; rfl
    cases hdl : (handleClaim (clearSent x) c.2 c.1).s.devs with
    | nil => rw [hdl] at hlen; cases hlen
    | cons e t =>
      rw [hdl] at hlen hd'
      cases t with
      | nil => simp at hd'; subst hd'; simp [hd'n, hdn, hsrc]
      | cons e' t' => simp at hlen
  · have hs2 : (search false (siblings (clearSent x).s.devs 0) searchFuel d.source d.endSource).source = nxt a d.endSource := by
      rw [← hd's]; exact hsrc
    rw [hr2, hr1, hb_sent, hsent, hsent0, hs2, hdn]; rfl
  · rw [hr1]
    have : (heartbeatPass (handleClaim (clearSent x) c.2 c.1)).addressChanged = (handleClaim (clearSent x) c.2 c.1).addressChanged := by
      unfold heartbeatPass; split <;> rfl
    rw [this]; exact hchg

/-- the application of node 0 has an unread address-changed indication -/
def Chg (b : Bus) : Prop := ∃ x, (b.node 0).kind = .lib x ∧ x.addressChanged = true

theorem chg_step1 {b : Bus} {n0 A : Nat} {f : Iso.Node} {in0 in1 : List Iso.Claim} (h : Two b n0 A f in0 in1) (hc : Chg b) :
    Chg (step b (.deliver 1)) := by
  obtain ⟨x, hk, hx⟩ := hc
  simp only [step]
  split
  · split
    · exact ⟨x, hk, hx⟩
    · exact ⟨x, by rw [act_kind_other b 1 0 (by omega)]; exact hk, hx⟩
  · exact ⟨x, hk, hx⟩

theorem chg_step0 {b : Bus} {n0 A : Nat} {f : Iso.Node} {in0 in1 : List Iso.Claim} (h : Two b n0 A f in0 in1) (hc : Chg b) :
    Chg (step b (.deliver 0)) := by
  obtain ⟨x, hk, hx⟩ := hc
  obtain ⟨_, ⟨x', hk', hl⟩, _⟩ := h
  rw [hk] at hk'; cases hk'
  simp only [step]
  split
  · split
    · exact ⟨x, hk, hx⟩
    · rename_i fr rest _
      refine ⟨(libParse x [.frame fr]).1, by rw [act_node_self, hk]; rfl, ?_⟩
      have := rep_parse (clearSent x) (libOK_clearSent hl.1) (some (.frame fr))
      exact this.2.1 hx
  · exact ⟨x, hk, hx⟩

/-- node 0 loses the arbitration: exact new address, and the change is latched -/
theorem two_deliver0_move {b : Bus} {n0 A : Nat} {f : Iso.Node} {c : Iso.Claim} {r0 in1 : List Iso.Claim} {x : Inst} {d : Dev}
    (h : Two b n0 A f (c :: r0) in1) (hkx : (b.node 0).kind = .lib x) (hd : x.s.devs = [d]) (ha : A ≤ 251) (he : c.2 = A)
    (hl : c.1 < n0) :
    Two (step b (.deliver 0)) n0 (nxt A d.endSource) f r0 (in1 ++ [(n0, nxt A d.endSource)]) ∧ Chg (step b (.deliver 0)) := by
  obtain ⟨hn, ⟨x', hk, hx⟩, h0, hk1, hst, h1, hb0, hb1⟩ := h
  rw [hkx] at hk; cases hk
  have hcok := hb0 c (List.mem_cons_self)
  have hr0 : ∀ c' ∈ r0, okClaim c' := fun c' hc' => hb0 c' (List.mem_cons_of_mem _ hc')
  have hlt : 0 < b.n := by omega
  have hstep : step b (.deliver 0) = act b 0 (kindRx b.next (b.node 0).kind (frameOfClaim c)) (r0.map frameOfClaim) := by
    simp only [step, hlt, ↓reduceIte, h0, List.map_cons]
  have hkr : kindRx b.next (b.node 0).kind (frameOfClaim c) =
      (.lib (libParse x [.frame (frameOfClaim c)]).1, (libParse x [.frame (frameOfClaim c)]).2) := by rw [hkx]; rfl
  have hon : onBus (b.node 1).kind = true := by rw [hk1]; exact hst
  have mv := lib_move_exact x n0 A d hx hd ha c hcok.1 hcok.2 he hl
  simp only at mv
  rw [hstep, hkr]
  refine ⟨⟨hn, ⟨_, by rw [act_node_self], mv.1⟩, by rw [act_node_self], ?_, hst, ?_, hr0, ?_⟩, ⟨_, by rw [act_node_self], mv.2.2⟩⟩
  · rw [act_kind_other b 0 1 (by omega)]; exact hk1
  · rw [act_node_other b 0 1 (by omega), if_pos hon]; simp [h1, mv.2.1]
  · intro c' hc'; rcases List.mem_append.mp hc' with h | h
    · exact hb1 c' h
    · simp at h; subst h; exact ⟨hx.name_lt, nxt_lt _ _⟩

/-- remaining deliveries `k` ↦ shape of the bus (library instance `x0` = NAME `n0`, end-of-search `e0`, higher than `f0` at `a`) -/
def PhH (n0 : Nat) (f0 : Iso.Node) (x0 : Inst) (e0 : Nat) (nx : Iso.Node → Nat) (k : Nat) (b : Bus) : Prop :=
  let a := f0.addr; let n1 := f0.name; let r := nxt f0.addr e0
  b.next = nx ∧
  match k with
  | 4 => Two b n0 a f0 [(n1, a)] [(n0, a)] ∧ (b.node 0).kind = .lib x0
  | 3 => (Two b n0 r f0 [] [(n0, a), (n0, r)] ∧ Chg b) ∨ (Two b n0 a f0 [(n1, a), (n1, a)] [] ∧ (b.node 0).kind = .lib x0)
  | 2 => Two b n0 r f0 [(n1, a)] [(n0, r)] ∧ Chg b
  | 1 => (Two b n0 r f0 [] [(n0, r)] ∧ Chg b) ∨ (Two b n0 r f0 [(n1, a)] [] ∧ Chg b)
  | 0 => Two b n0 r f0 [] [] ∧ Chg b
  | _ => False

theorem kind0_step1 {b : Bus} {n0 A : Nat} {f : Iso.Node} {in0 in1 : List Iso.Claim} (h : Two b n0 A f in0 in1) :
    ((step b (.deliver 1)).node 0).kind = (b.node 0).kind := by
  simp only [step]
  split
  · split
    · rfl
    · rw [act_kind_other b 1 0 (by omega)]
  · rfl

theorem phH_step (n0 : Nat) (f0 : Iso.Node) (x0 : Inst) (d0 : Dev) (nx : Iso.Node → Nat) (hgt : f0.name < n0) (hn1 : f0.name < 2^64)
    (ha : f0.addr ≤ 251) (hnx : ∀ f, nx f < 256) (hd0 : x0.s.devs = [d0]) (k : Nat) (b : Bus)
    (h : PhH n0 f0 x0 d0.endSource nx k b) (i : Nat) : Progress (PhH n0 f0 x0 d0.endSource nx) k b i := by
  obtain ⟨hnext, hk⟩ := h
  have hne : nxt f0.addr d0.endSource ≠ f0.addr := nxt_ne _ _ ha
  have hn2 : ∀ {A f in0 in1}, Two b n0 A f in0 in1 → b.n = 2 := fun h => h.1
  have nxt' : (step b (.deliver i)).next = nx := by rw [step_deliver_next]; exact hnext
  have idle0 : ∀ {A f in1}, Two b n0 A f [] in1 → Progress (PhH n0 f0 x0 d0.endSource nx) k b 0 :=
    fun h => Or.inl ⟨two_idle0 h, fun _ => by rw [two_inbox0 h]; rfl⟩
  have idle1 : ∀ {A f in0}, Two b n0 A f in0 [] → Progress (PhH n0 f0 x0 d0.endSource nx) k b 1 :=
    fun h => Or.inl ⟨two_idle1 h, fun _ => by rw [two_inbox1 h]; rfl⟩
  have far : ∀ {A f in0 in1}, Two b n0 A f in0 in1 → 2 ≤ i → Progress (PhH n0 f0 x0 d0.endSource nx) k b i :=
    fun h hi => Or.inl ⟨step_far b i (by rw [hn2 h]; omega), fun hh => by rw [hn2 h] at hh; omega⟩
  have hnxb : b.next f0 < 256 := by rw [hnext]; exact hnx f0
  match k, hk with
  | 4, ⟨hk, hkx⟩ =>
    rcases Nat.lt_or_ge i 2 with hi | hi
    · rcases (by omega : i = 0 ∨ i = 1) with rfl | rfl
      · refine Or.inr ⟨3, rfl, ⟨nxt', Or.inl ?_⟩, by rw [hn2 hk]; omega, by rw [two_inbox0 hk]; simp⟩
        simpa using two_deliver0_move hk hkx hd0 ha rfl hgt
      · refine Or.inr ⟨3, rfl, ⟨nxt', Or.inr ⟨?_, by rw [kind0_step1 hk]; exact hkx⟩⟩, by rw [hn2 hk]; omega, by rw [two_inbox1 hk]; simp⟩
        simpa using (two_deliver1 hk hn1 (by omega) hnxb).2.1 rfl ha hgt
    · exact far hk hi
  | 3, hk =>
    rcases hk with ⟨hk, hc⟩ | ⟨hk, hkx⟩
    · rcases Nat.lt_or_ge i 2 with hi | hi
      · rcases (by omega : i = 0 ∨ i = 1) with rfl | rfl
        · exact idle0 hk
        · refine Or.inr ⟨2, rfl, ⟨nxt', ?_, chg_step1 hk hc⟩, by rw [hn2 hk]; omega, by rw [two_inbox1 hk]; simp⟩
          simpa using (two_deliver1 hk hn1 (by omega) hnxb).2.1 rfl ha hgt
      · exact far hk hi
    · rcases Nat.lt_or_ge i 2 with hi | hi
      · rcases (by omega : i = 0 ∨ i = 1) with rfl | rfl
        · refine Or.inr ⟨2, rfl, ⟨nxt', ?_⟩, by rw [hn2 hk]; omega, by rw [two_inbox0 hk]; simp⟩
          simpa using two_deliver0_move hk hkx hd0 ha rfl hgt
        · exact idle1 hk
      · exact far hk hi
  | 2, ⟨hk, hc⟩ =>
    rcases Nat.lt_or_ge i 2 with hi | hi
    · rcases (by omega : i = 0 ∨ i = 1) with rfl | rfl
      · refine Or.inr ⟨1, rfl, ⟨nxt', Or.inl ⟨?_, chg_step0 hk hc⟩⟩, by rw [hn2 hk]; omega, by rw [two_inbox0 hk]; simp⟩
        exact (two_deliver0 hk).1 (fun hh => hne hh.symm)
      · refine Or.inr ⟨1, rfl, ⟨nxt', Or.inr ⟨?_, chg_step1 hk hc⟩⟩, by rw [hn2 hk]; omega, by rw [two_inbox1 hk]; simp⟩
        exact (two_deliver1 hk hn1 (by omega) hnxb).1 (fun hh => hne hh.1)
    · exact far hk hi
  | 1, hk =>
    rcases hk with ⟨hk, hc⟩ | ⟨hk, hc⟩
    · rcases Nat.lt_or_ge i 2 with hi | hi
      · rcases (by omega : i = 0 ∨ i = 1) with rfl | rfl
        · exact idle0 hk
        · refine Or.inr ⟨0, rfl, ⟨nxt', ?_, chg_step1 hk hc⟩, by rw [hn2 hk]; omega, by rw [two_inbox1 hk]; simp⟩
          exact (two_deliver1 hk hn1 (by omega) hnxb).1 (fun hh => hne hh.1)
      · exact far hk hi
    · rcases Nat.lt_or_ge i 2 with hi | hi
      · rcases (by omega : i = 0 ∨ i = 1) with rfl | rfl
        · refine Or.inr ⟨0, rfl, ⟨nxt', ?_, chg_step0 hk hc⟩, by rw [hn2 hk]; omega, by rw [two_inbox0 hk]; simp⟩
          exact (two_deliver0 hk).1 (fun hh => hne hh.symm)
        · exact idle1 hk
      · exact far hk hi
  | 0, ⟨hk, _⟩ =>
    rcases Nat.lt_or_ge i 2 with hi | hi
    · rcases (by omega : i = 0 ∨ i = 1) with rfl | rfl
      · exact idle0 hk
      · exact idle1 hk
    · exact far hk hi

theorem phH_zero {n0 : Nat} {f0 : Iso.Node} {x0 : Inst} {e0 : Nat} {nx : Iso.Node → Nat} {b : Bus} (h : PhH n0 f0 x0 e0 nx 0 b) :
    quiescent b ∧ claimants (b.node 0).kind = [(n0, nxt f0.addr e0)] ∧ claimants (b.node 1).kind = [(f0.name, f0.addr)] ∧ Chg b := by
  obtain ⟨_, ⟨hn, ⟨x, hk, hx⟩, h0, hk1, hst, h1, _⟩, hc⟩ := h
  refine ⟨fun i hi => ?_, ?_, ?_, hc⟩
  · rw [hn] at hi
    rcases (by omega : i = 0 ∨ i = 1) with rfl | rfl
    · rw [h0]; rfl
    · rw [h1]; rfl
  · rw [hk]; simp only [claimants, hx.2.1, ↓reduceIte]; exact hx.2.2
  · rw [hk1]; simp only [claimants]; rw [if_pos hst]

theorem phH_pending {n0 : Nat} {f0 : Iso.Node} {x0 : Inst} {e0 : Nat} {nx : Iso.Node → Nat} {b : Bus} {k : Nat}
    (h : PhH n0 f0 x0 e0 nx (k + 1) b) : ∃ i, i < b.n ∧ (b.node i).inbox ≠ [] := by
  obtain ⟨_, hk⟩ := h
  have p0 : ∀ {A f c r in1}, Two b n0 A f (c :: r) in1 → ∃ i, i < b.n ∧ (b.node i).inbox ≠ [] :=
    fun h => ⟨0, by rw [h.1]; omega, by rw [two_inbox0 h]; simp⟩
  have p1 : ∀ {A f c r in0}, Two b n0 A f in0 (c :: r) → ∃ i, i < b.n ∧ (b.node i).inbox ≠ [] :=
    fun h => ⟨1, by rw [h.1]; omega, by rw [two_inbox1 h]; simp⟩
  match k, hk with
  | 3, hk => exact p0 hk.1
  | 2, hk => rcases hk with hk | hk; exact p1 hk.1; exact p0 hk.1
  | 1, hk => exact p0 hk.1
  | 0, hk => rcases hk with hk | hk; exact p1 hk.1; exact p0 hk.1

/-! ## two one-device library instances -/

/-- node `i` is a one-device library instance (NAME `nm` at `A`) with the pending claims `inb` -/
def Side (b : Bus) (i nm A : Nat) (inb : List Iso.Claim) : Prop :=
  (∃ x, (b.node i).kind = .lib x ∧ LibAt x nm A) ∧ (b.node i).inbox = inb.map frameOfClaim ∧ ∀ c ∈ inb, okClaim c

def ChgAt (b : Bus) (i : Nat) : Prop := ∃ x, (b.node i).kind = .lib x ∧ x.addressChanged = true

theorem side_idle {b : Bus} {i nm A : Nat} (h : Side b i nm A []) : step b (.deliver i) = b := by
  simp only [step]; split
  · rw [h.2.1]; rfl
  · rfl

theorem kind_other_step (b : Bus) (i j : Nat) (hij : j ≠ i) : ((step b (.deliver i)).node j).kind = (b.node j).kind := by
  simp only [step]; split
  · split
    · rfl
    · rw [act_kind_other b i j hij]
  · rfl

theorem chgAt_other {b : Bus} {i j : Nat} (hij : j ≠ i) (h : ChgAt b j) : ChgAt (step b (.deliver i)) j := by
  obtain ⟨x, hk, hx⟩ := h
  exact ⟨x, by rw [kind_other_step b i j hij]; exact hk, hx⟩

theorem chgAt_self {b : Bus} {i nm A : Nat} {inb : List Iso.Claim} (hs : Side b i nm A inb) (h : ChgAt b i) :
    ChgAt (step b (.deliver i)) i := by
  obtain ⟨x, hk, hx⟩ := h
  obtain ⟨⟨x', hk', hl⟩, _⟩ := hs
  rw [hk] at hk'; cases hk'
  simp only [step]
  split
  · split
    · exact ⟨x, hk, hx⟩
    · rename_i fr rest _
      refine ⟨(libParse x [.frame fr]).1, by rw [act_node_self, hk]; rfl, ?_⟩
      exact (rep_parse (clearSent x) (libOK_clearSent hl.1) (some (.frame fr))).2.1 hx
  · exact ⟨x, hk, hx⟩

/-- node `i` processes the claim `c`; node `j` is the other library instance -/
theorem side_deliver {b : Bus} {i j nm A nm' A' : Nat} {c : Iso.Claim} {r inj : List Iso.Claim} {x : Inst} {d : Dev}
    (hi : i < b.n) (hij : j ≠ i) (hS : Side b i nm A (c :: r)) (hO : Side b j nm' A' inj)
    (hkx : (b.node i).kind = .lib x) (hd : x.s.devs = [d]) :
    (c.2 ≠ A → Side (step b (.deliver i)) i nm A r ∧ Side (step b (.deliver i)) j nm' A' inj) ∧
    (A ≤ 251 → c.2 = A → nm < c.1 →
      Side (step b (.deliver i)) i nm A r ∧ Side (step b (.deliver i)) j nm' A' (inj ++ [(nm, A)])) ∧
    (A ≤ 251 → c.2 = A → c.1 < nm →
      Side (step b (.deliver i)) i nm (nxt A d.endSource) r ∧
      Side (step b (.deliver i)) j nm' A' (inj ++ [(nm, nxt A d.endSource)]) ∧ ChgAt (step b (.deliver i)) i) := by
  obtain ⟨⟨x', hk, hx⟩, h0, hb0⟩ := hS
  rw [hkx] at hk; cases hk
  obtain ⟨⟨y, hky, hy⟩, h1, hb1⟩ := hO
  have hcok := hb0 c (List.mem_cons_self)
  have hr0 : ∀ c' ∈ r, okClaim c' := fun c' hc' => hb0 c' (List.mem_cons_of_mem _ hc')
  have hstep : step b (.deliver i) = act b i (kindRx b.next (b.node i).kind (frameOfClaim c)) (r.map frameOfClaim) := by
    simp only [step, hi, ↓reduceIte, h0, List.map_cons]
  have hkr : kindRx b.next (b.node i).kind (frameOfClaim c) =
      (.lib (libParse x [.frame (frameOfClaim c)]).1, (libParse x [.frame (frameOfClaim c)]).2) := by rw [hkx]; rfl
  have hon : onBus (b.node j).kind = true := by rw [hky]; simp [onBus, hy.2.1]
  have key : ∀ (A2 : Nat) (out : List Iso.Claim), LibAt (libParse x [.frame (frameOfClaim c)]).1 nm A2 →
      (libParse x [.frame (frameOfClaim c)]).2 = out.map frameOfClaim → (∀ c' ∈ out, okClaim c') →
      Side (step b (.deliver i)) i nm A2 r ∧ Side (step b (.deliver i)) j nm' A' (inj ++ out) := by
    intro A2 out hl ho hoo
    rw [hstep, hkr]
    refine ⟨⟨⟨_, by rw [act_node_self], hl⟩, by rw [act_node_self], hr0⟩, ⟨y, ?_, hy⟩, ?_, ?_⟩
    · rw [act_kind_other b i j hij]; exact hky
    · rw [act_node_other b i j hij, if_pos hon]; simp [h1, ho]
    · intro c' hc'; rcases List.mem_append.mp hc' with h | h
      · exact hb1 c' h
      · exact hoo c' h
  have re := lib_react x nm A hx c hcok.1 hcok.2
  simp only at re
  refine ⟨fun hne => ?_, fun ha he hl => ?_, fun ha he hl => ?_⟩
  · have := re.1 hne
    simpa using key A [] this.1 (by rw [this.2]; rfl) (by simp)
  · have := re.2.1 ha he hl
    exact key A [(nm, A)] this.1 (by rw [this.2]; rfl)
      (by intro c' hc'; simp at hc'; subst hc'; exact ⟨hx.name_lt, by show A < 256; omega⟩)
  · have mv := lib_move_exact x nm A d hx hd ha c hcok.1 hcok.2 he hl
    simp only at mv
    have k2 := key (nxt A d.endSource) [(nm, nxt A d.endSource)] mv.1 (by rw [mv.2.1]; rfl)
      (by intro c' hc'; simp at hc'; subst hc'; exact ⟨hx.name_lt, nxt_lt _ _⟩)
    refine ⟨k2.1, k2.2, ?_⟩
    rw [hstep, hkr]
    exact ⟨_, by rw [act_node_self], mv.2.2⟩

theorem side_xd {b : Bus} {i nm A : Nat} {inb : List Iso.Claim} (h : Side b i nm A inb) :
    ∃ x d, (b.node i).kind = .lib x ∧ x.s.devs = [d] := by
  obtain ⟨⟨x, hk, hx⟩, _⟩ := h
  obtain ⟨d, hd, _⟩ := hx.dev
  exact ⟨x, d, hk, hd⟩

/-- remaining deliveries `k` ↦ shape of the bus: node 0 (NAME `n0`, lower) and node 1 (= `y0`, NAME `n1`, end-of-search `e1`)
both at `a` with crossed claims -/
def PhLL (n0 n1 a : Nat) (y0 : Inst) (e1 : Nat) (k : Nat) (b : Bus) : Prop :=
  let r := nxt a e1
  b.n = 2 ∧
  match k with
  | 4 => Side b 0 n0 a [(n1, a)] ∧ Side b 1 n1 a [(n0, a)] ∧ (b.node 1).kind = .lib y0
  | 3 => (Side b 0 n0 a [] ∧ Side b 1 n1 a [(n0, a), (n0, a)] ∧ (b.node 1).kind = .lib y0) ∨
         (Side b 0 n0 a [(n1, a), (n1, r)] ∧ Side b 1 n1 r [] ∧ ChgAt b 1)
  | 2 => Side b 0 n0 a [(n1, r)] ∧ Side b 1 n1 r [(n0, a)] ∧ ChgAt b 1
  | 1 => (Side b 0 n0 a [] ∧ Side b 1 n1 r [(n0, a)] ∧ ChgAt b 1) ∨ (Side b 0 n0 a [(n1, r)] ∧ Side b 1 n1 r [] ∧ ChgAt b 1)
  | 0 => Side b 0 n0 a [] ∧ Side b 1 n1 r [] ∧ ChgAt b 1
  | _ => False

theorem step_deliver_n (b : Bus) (i : Nat) : (step b (.deliver i)).n = b.n := by
  simp only [step]; split
  · split <;> rfl
  · rfl

theorem phLL_step (n0 n1 a : Nat) (y0 : Inst) (d1 : Dev) (hlt : n0 < n1) (ha : a ≤ 251) (hd1 : y0.s.devs = [d1])
    (k : Nat) (b : Bus) (h : PhLL n0 n1 a y0 d1.endSource k b) (i : Nat) : Progress (PhLL n0 n1 a y0 d1.endSource) k b i := by
  obtain ⟨hn, hk⟩ := h
  have hne : nxt a d1.endSource ≠ a := nxt_ne _ _ ha
  have hn' : (step b (.deliver i)).n = 2 := by rw [step_deliver_n]; exact hn
  have idle : ∀ {j nm A}, Side b j nm A [] → j = i → Progress (PhLL n0 n1 a y0 d1.endSource) k b i :=
    fun h hj => Or.inl ⟨by rw [← hj]; exact side_idle h, fun _ => by rw [← hj, h.2.1]; rfl⟩
  have far : 2 ≤ i → Progress (PhLL n0 n1 a y0 d1.endSource) k b i :=
    fun hi => Or.inl ⟨step_far b i (by rw [hn]; omega), fun hh => by rw [hn] at hh; omega⟩
  have ne0 : ∀ {nm A c r}, Side b 0 nm A (c :: r) → (0 : Nat) < b.n ∧ (b.node 0).inbox ≠ [] :=
    fun h => ⟨by rw [hn]; omega, by rw [h.2.1]; simp⟩
  have ne1 : ∀ {nm A c r}, Side b 1 nm A (c :: r) → (1 : Nat) < b.n ∧ (b.node 1).inbox ≠ [] :=
    fun h => ⟨by rw [hn]; omega, by rw [h.2.1]; simp⟩
  by_cases hi2 : 2 ≤ i
  · exact far hi2
  have hi : i < 2 := by omega
  match k, hk with
  | 4, ⟨s0, s1, hky⟩ =>
    rcases (by omega : i = 0 ∨ i = 1) with rfl | rfl
    · obtain ⟨x, d, hkx, hd⟩ := side_xd s0
      have t := (side_deliver (ne0 s0).1 (by omega) s0 s1 hkx hd).2.1 ha rfl hlt
      exact Or.inr ⟨3, rfl, ⟨hn', Or.inl ⟨t.1, by simpa using t.2, by rw [kind_other_step b 0 1 (by omega)]; exact hky⟩⟩, ne0 s0⟩
    · have t := (side_deliver (ne1 s1).1 (by omega) s1 s0 hky hd1).2.2 ha rfl hlt
      exact Or.inr ⟨3, rfl, ⟨hn', Or.inr ⟨by simpa using t.2.1, t.1, t.2.2⟩⟩, ne1 s1⟩
  | 3, hk =>
    rcases hk with ⟨s0, s1, hky⟩ | ⟨s0, s1, hc⟩
    · rcases (by omega : i = 0 ∨ i = 1) with rfl | rfl
      · exact idle s0 rfl
      · have t := (side_deliver (ne1 s1).1 (by omega) s1 s0 hky hd1).2.2 ha rfl hlt
        exact Or.inr ⟨2, rfl, ⟨hn', by simpa using t.2.1, t.1, t.2.2⟩, ne1 s1⟩
    · rcases (by omega : i = 0 ∨ i = 1) with rfl | rfl
      · obtain ⟨x, d, hkx, hd⟩ := side_xd s0
        have t := (side_deliver (ne0 s0).1 (by omega) s0 s1 hkx hd).2.1 ha rfl hlt
        exact Or.inr ⟨2, rfl, ⟨hn', t.1, by simpa using t.2, chgAt_other (by omega) hc⟩, ne0 s0⟩
      · exact idle s1 rfl
  | 2, ⟨s0, s1, hc⟩ =>
    rcases (by omega : i = 0 ∨ i = 1) with rfl | rfl
    · obtain ⟨x, d, hkx, hd⟩ := side_xd s0
      have t := (side_deliver (ne0 s0).1 (by omega) s0 s1 hkx hd).1 hne
      exact Or.inr ⟨1, rfl, ⟨hn', Or.inl ⟨t.1, t.2, chgAt_other (by omega) hc⟩⟩, ne0 s0⟩
    · obtain ⟨y, d, hky, hd⟩ := side_xd s1
      have t := (side_deliver (ne1 s1).1 (by omega) s1 s0 hky hd).1 (fun hh => hne hh.symm)
      exact Or.inr ⟨1, rfl, ⟨hn', Or.inr ⟨t.2, t.1, chgAt_self s1 hc⟩⟩, ne1 s1⟩
  | 1, hk =>
    rcases hk with ⟨s0, s1, hc⟩ | ⟨s0, s1, hc⟩
    · rcases (by omega : i = 0 ∨ i = 1) with rfl | rfl
      · exact idle s0 rfl
      · obtain ⟨y, d, hky, hd⟩ := side_xd s1
        have t := (side_deliver (ne1 s1).1 (by omega) s1 s0 hky hd).1 (fun hh => hne hh.symm)
        exact Or.inr ⟨0, rfl, ⟨hn', t.2, t.1, chgAt_self s1 hc⟩, ne1 s1⟩
    · rcases (by omega : i = 0 ∨ i = 1) with rfl | rfl
      · obtain ⟨x, d, hkx, hd⟩ := side_xd s0
        have t := (side_deliver (ne0 s0).1 (by omega) s0 s1 hkx hd).1 hne
        exact Or.inr ⟨0, rfl, ⟨hn', t.1, t.2, chgAt_other (by omega) hc⟩, ne0 s0⟩
      · exact idle s1 rfl
  | 0, ⟨s0, s1, _⟩ =>
    rcases (by omega : i = 0 ∨ i = 1) with rfl | rfl
    · exact idle s0 rfl
    · exact idle s1 rfl

theorem side_claimants {b : Bus} {i nm A : Nat} {inb : List Iso.Claim} (h : Side b i nm A inb) :
    claimants (b.node i).kind = [(nm, A)] := by
  obtain ⟨⟨x, hk, hx⟩, _⟩ := h
  rw [hk]; simp only [claimants, hx.2.1, ↓reduceIte]; exact hx.2.2

theorem phLL_zero {n0 n1 a : Nat} {y0 : Inst} {e1 : Nat} {b : Bus} (h : PhLL n0 n1 a y0 e1 0 b) :
    quiescent b ∧ claimants (b.node 0).kind = [(n0, a)] ∧ claimants (b.node 1).kind = [(n1, nxt a e1)] ∧ ChgAt b 1 := by
  obtain ⟨hn, s0, s1, hc⟩ := h
  refine ⟨fun i hi => ?_, side_claimants s0, side_claimants s1, hc⟩
  rw [hn] at hi
  rcases (by omega : i = 0 ∨ i = 1) with rfl | rfl
  · rw [s0.2.1]; rfl
  · rw [s1.2.1]; rfl

theorem phLL_pending {n0 n1 a : Nat} {y0 : Inst} {e1 : Nat} {b : Bus} {k : Nat} (h : PhLL n0 n1 a y0 e1 (k + 1) b) :
    ∃ i, i < b.n ∧ (b.node i).inbox ≠ [] := by
  obtain ⟨hn, hk⟩ := h
  have p0 : ∀ {nm A c r}, Side b 0 nm A (c :: r) → ∃ i, i < b.n ∧ (b.node i).inbox ≠ [] :=
    fun h => ⟨0, by rw [hn]; omega, by rw [h.2.1]; simp⟩
  have p1 : ∀ {nm A c r}, Side b 1 nm A (c :: r) → ∃ i, i < b.n ∧ (b.node i).inbox ≠ [] :=
    fun h => ⟨1, by rw [hn]; omega, by rw [h.2.1]; simp⟩
  match k, hk with
  | 3, hk => exact p0 hk.1
  | 2, hk => rcases hk with hk | hk; exact p1 hk.2.1; exact p0 hk.1
  | 1, hk => exact p0 hk.1
  | 0, hk => rcases hk with hk | hk; exact p1 hk.2.1; exact p0 hk.1

/-! ## polls and clock advances during the contest -/

theorem isACS_end (f : Flavor) (now : Nat) (d : Dev) :
    (isAddressClaimStarted f now d).1.endSource = d.endSource ∨ (isAddressClaimStarted f now d).1.endSource = updEnd d.source := by
  unfold isAddressClaimStarted
  split
  · split
    · right; rfl
    · left; rfl
  · left; rfl

/-- `ParseMessages` with nothing to read on an open one-device instance: no frame, no address change; the claim timer may
run out, which moves the end-of-search address to the address before the current one -/
theorem lib_poll (x : Inst) (nm a : Nat) (d : Dev) (h : LibAt x nm a) (hd : x.s.devs = [d]) :
    LibAt (libParse x []).1 nm a ∧ (libParse x []).2 = [] ∧ (x.addressChanged = true → (libParse x []).1.addressChanged = true) ∧
    ∃ d', (libParse x []).1.s.devs = [d'] ∧ (d'.endSource = d.endSource ∨ d'.endSource = updEnd a) := by
  have hc := libAt_clear h
  have hp : (libParse x []).1 = heartbeatPass (clearSent x) := by
    unfold libParse; simp only; rw [parse_open (clearSent x) h.2.1 hc.1.send]; rfl
  have h2 : (libParse x []).2 = (libParse x []).1.s.drv.sent := rfl
  obtain ⟨d0, hd0, _, hds⟩ := h.dev
  rw [hd] at hd0; cases hd0
  refine ⟨?_, by rw [h2, hp, hb_sent]; rfl, fun hx => ?_, ?_⟩
  · rw [hp]; exact ⟨(heartbeatPass_post _ hc.1).1, by rw [hb_open]; exact hc.2.1, by rw [hb_map]; exact hc.2.2⟩
  · rw [hp]; unfold heartbeatPass; split <;> exact hx
  · rw [hp]; unfold heartbeatPass
    have hcd : (clearSent x).s.devs = [d] := hd
    rw [if_pos hc.1.send.cm]
    refine ⟨(isAddressClaimStarted (clearSent x).s.flavor (clearSent x).s.now d).1, by simp [hcd], ?_⟩
    rw [← hds]; exact isACS_end _ _ d

/-- a step in which node `i` becomes `k'` with the same inbox and sends nothing leaves all other nodes as they are -/
theorem act_quiet_other (b : Bus) (i j : Nat) (hij : j ≠ i) (k' : Kind) (inb : List Frame) :
    (act b i (k', []) inb).node j = b.node j := by
  rw [act_node_other b i j hij]; split
  · simp
  · rfl

/-- the schedule events of the timed theorems -/
inductive Sch where
  | deliver (i : Nat)
  | poll (i : Nat)
  | adv (dt : Nat)

def Sch.toEv : Sch → Ev
  | .deliver i => .deliver i
  | .poll i => .poll i
  | .adv dt => .adv dt

/-- node `i` (a library instance) is polled -/
theorem side_poll_self {b : Bus} {i nm A : Nat} {inb : List Iso.Claim} (hi : i < b.n) (h : Side b i nm A inb) :
    Side (step b (.poll i)) i nm A inb ∧ (∀ j, j ≠ i → (step b (.poll i)).node j = b.node j) ∧
    (ChgAt b i → ChgAt (step b (.poll i)) i) ∧
    (∀ x d, (b.node i).kind = .lib x → x.s.devs = [d] → ∃ x' d', ((step b (.poll i)).node i).kind = .lib x' ∧ x'.s.devs = [d'] ∧
        (d'.endSource = d.endSource ∨ d'.endSource = updEnd A)) := by
  obtain ⟨⟨x, hk, hx⟩, h0, hb0⟩ := h
  obtain ⟨d, hd, _⟩ := hx.dev
  have lp := lib_poll x nm A d hx hd
  have hstep : step b (.poll i) = act b i (.lib (libParse x []).1, []) (b.node i).inbox := by
    simp only [step, hi, ↓reduceIte, hk, kindPoll, lp.2.1]
  rw [hstep]
  refine ⟨⟨⟨_, by rw [act_node_self], lp.1⟩, by rw [act_node_self]; exact h0, hb0⟩,
    fun j hj => act_quiet_other b i j hj _ _, fun ⟨x1, hk1, hc⟩ => ?_, fun x1 d1 hk1 hd1 => ?_⟩
  · rw [hk] at hk1; cases hk1
    exact ⟨_, by rw [act_node_self], lp.2.2.1 hc⟩
  · rw [hk] at hk1; cases hk1
    rw [hd] at hd1; cases hd1
    obtain ⟨d', hd', he⟩ := lp.2.2.2
    exact ⟨_, d', by rw [act_node_self], hd', he⟩

/-- the clock advances: every library instance keeps devices, latches and inbox -/
theorem side_adv {b : Bus} {i nm A : Nat} {inb : List Iso.Claim} (dt : Nat) (h : Side b i nm A inb) :
    Side (step b (.adv dt)) i nm A inb := by
  obtain ⟨⟨x, hk, hx⟩, h0, hb0⟩ := h
  refine ⟨⟨{ x with s := { x.s with now := x.s.now + dt } }, ?_, libOK_of_fields x _ hx.1 rfl rfl rfl rfl rfl rfl rfl, hx.2.1, hx.2.2⟩, ?_, hb0⟩
  · simp only [step, hk, kindAdv]
  · simp only [step]; exact h0

theorem chgAt_adv {b : Bus} {i : Nat} (dt : Nat) (h : ChgAt b i) : ChgAt (step b (.adv dt)) i := by
  obtain ⟨x, hk, hx⟩ := h
  exact ⟨{ x with s := { x.s with now := x.s.now + dt } }, by simp only [step, hk, kindAdv], hx⟩

theorem side_congr {b b' : Bus} {j nm A : Nat} {inb : List Iso.Claim} (h : b'.node j = b.node j) (s : Side b j nm A inb) :
    Side b' j nm A inb := by unfold Side at *; rw [h]; exact s

theorem chgAt_congr {b b' : Bus} {j : Nat} (h : b'.node j = b.node j) (s : ChgAt b j) : ChgAt b' j := by
  unfold ChgAt at *; rw [h]; exact s

/-- node 1's only device has the end-of-search address `e0`, or the one a claim-timer expiry at address `a` sets -/
def EndIn (b : Bus) (a e0 : Nat) : Prop :=
  ∃ y d, (b.node 1).kind = .lib y ∧ y.s.devs = [d] ∧ (d.endSource = e0 ∨ d.endSource = updEnd a)

/-- where the loser can end: the next address seen from `e0`, or seen from the end-of-search address of an expired claim timer -/
def R (a e0 r : Nat) : Prop := r = nxt a e0 ∨ r = nxt a (updEnd a)

/-- timed phase table of the library-vs-library contest (node 0 lower NAME) -/
def PhT (n0 n1 a e0 : Nat) (k : Nat) (b : Bus) : Prop :=
  b.n = 2 ∧
  match k with
  | 4 => Side b 0 n0 a [(n1, a)] ∧ Side b 1 n1 a [(n0, a)] ∧ EndIn b a e0
  | 3 => (Side b 0 n0 a [] ∧ Side b 1 n1 a [(n0, a), (n0, a)] ∧ EndIn b a e0) ∨
         (∃ r, R a e0 r ∧ Side b 0 n0 a [(n1, a), (n1, r)] ∧ Side b 1 n1 r [] ∧ ChgAt b 1)
  | 2 => ∃ r, R a e0 r ∧ Side b 0 n0 a [(n1, r)] ∧ Side b 1 n1 r [(n0, a)] ∧ ChgAt b 1
  | 1 => ∃ r, R a e0 r ∧ ((Side b 0 n0 a [] ∧ Side b 1 n1 r [(n0, a)]) ∨ (Side b 0 n0 a [(n1, r)] ∧ Side b 1 n1 r [])) ∧ ChgAt b 1
  | 0 => ∃ r, R a e0 r ∧ Side b 0 n0 a [] ∧ Side b 1 n1 r [] ∧ ChgAt b 1
  | _ => False

/-- `b'` is `b` after a poll or a clock advance, as far as the phase table can see -/
structure Pres (n1 a e0 : Nat) (b b' : Bus) : Prop where
  n : b'.n = b.n
  side : ∀ j nm A inb, j < 2 → Side b j nm A inb → Side b' j nm A inb
  chg : ChgAt b 1 → ChgAt b' 1
  endIn : ∀ inb, Side b 1 n1 a inb → EndIn b a e0 → EndIn b' a e0

theorem phT_pres {n0 n1 a e0 k : Nat} {b b' : Bus} (p : Pres n1 a e0 b b') (h : PhT n0 n1 a e0 k b) : PhT n0 n1 a e0 k b' := by
  obtain ⟨hn, hk⟩ := h
  refine ⟨by rw [p.n]; exact hn, ?_⟩
  match k, hk with
  | 4, ⟨s0, s1, e⟩ => exact ⟨p.side _ _ _ _ (by omega) s0, p.side _ _ _ _ (by omega) s1, p.endIn _ s1 e⟩
  | 3, hk =>
    rcases hk with ⟨s0, s1, e⟩ | ⟨r, hr, s0, s1, c⟩
    · exact Or.inl ⟨p.side _ _ _ _ (by omega) s0, p.side _ _ _ _ (by omega) s1, p.endIn _ s1 e⟩
    · exact Or.inr ⟨r, hr, p.side _ _ _ _ (by omega) s0, p.side _ _ _ _ (by omega) s1, p.chg c⟩
  | 2, ⟨r, hr, s0, s1, c⟩ => exact ⟨r, hr, p.side _ _ _ _ (by omega) s0, p.side _ _ _ _ (by omega) s1, p.chg c⟩
  | 1, ⟨r, hr, hs, c⟩ =>
    refine ⟨r, hr, ?_, p.chg c⟩
    rcases hs with ⟨s0, s1⟩ | ⟨s0, s1⟩
    · exact Or.inl ⟨p.side _ _ _ _ (by omega) s0, p.side _ _ _ _ (by omega) s1⟩
    · exact Or.inr ⟨p.side _ _ _ _ (by omega) s0, p.side _ _ _ _ (by omega) s1⟩
  | 0, ⟨r, hr, s0, s1, c⟩ => exact ⟨r, hr, p.side _ _ _ _ (by omega) s0, p.side _ _ _ _ (by omega) s1, p.chg c⟩

theorem phT_sides {n0 n1 a e0 k : Nat} {b : Bus} (h : PhT n0 n1 a e0 k b) :
    b.n = 2 ∧ (∃ A inb, Side b 0 n0 A inb) ∧ (∃ A inb, Side b 1 n1 A inb) := by
  obtain ⟨hn, hk⟩ := h
  refine ⟨hn, ?_⟩
  match k, hk with
  | 4, ⟨s0, s1, _⟩ => exact ⟨⟨_, _, s0⟩, ⟨_, _, s1⟩⟩
  | 3, hk =>
    rcases hk with ⟨s0, s1, _⟩ | ⟨r, _, s0, s1, _⟩
    · exact ⟨⟨_, _, s0⟩, ⟨_, _, s1⟩⟩
    · exact ⟨⟨_, _, s0⟩, ⟨_, _, s1⟩⟩
  | 2, ⟨r, _, s0, s1, _⟩ => exact ⟨⟨_, _, s0⟩, ⟨_, _, s1⟩⟩
  | 1, ⟨r, _, hs, _⟩ =>
    rcases hs with ⟨s0, s1⟩ | ⟨s0, s1⟩
    · exact ⟨⟨_, _, s0⟩, ⟨_, _, s1⟩⟩
    · exact ⟨⟨_, _, s0⟩, ⟨_, _, s1⟩⟩
  | 0, ⟨r, _, s0, s1, _⟩ => exact ⟨⟨_, _, s0⟩, ⟨_, _, s1⟩⟩

theorem step_poll_n (b : Bus) (i : Nat) : (step b (.poll i)).n = b.n := by
  simp only [step]; split <;> rfl

theorem pres_poll {n0 n1 a e0 : Nat} {b : Bus} {A0 A1 : Nat} {in0 in1 : List Iso.Claim} (hn : b.n = 2) (s0 : Side b 0 n0 A0 in0)
    (s1 : Side b 1 n1 A1 in1) (i : Nat) : Pres n1 a e0 b (step b (.poll i)) := by
  by_cases hi : i < b.n
  · rw [hn] at hi
    rcases (by omega : i = 0 ∨ i = 1) with rfl | rfl
    · have sp := side_poll_self (by omega) s0
      refine ⟨step_poll_n b 0, fun j nm A inb hj s => ?_, fun c => chgAt_congr (sp.2.1 1 (by omega)) c, fun inb s e => ?_⟩
      · rcases (by omega : j = 0 ∨ j = 1) with rfl | rfl
        · exact (side_poll_self (by omega) s).1
        · exact side_congr (sp.2.1 1 (by omega)) s
      · unfold EndIn at *; rw [sp.2.1 1 (by omega)]; exact e
    · have sp := side_poll_self (by omega) s1
      refine ⟨step_poll_n b 1, fun j nm A inb hj s => ?_, fun c => sp.2.2.1 c, fun inb s e => ?_⟩
      · rcases (by omega : j = 0 ∨ j = 1) with rfl | rfl
        · exact side_congr (sp.2.1 0 (by omega)) s
        · exact (side_poll_self (by omega) s).1
      · obtain ⟨y, d, hk, hd, he⟩ := e
        obtain ⟨y', d', hk', hd', he'⟩ := (side_poll_self (by omega) s).2.2.2 y d hk hd
        refine ⟨y', d', hk', hd', ?_⟩
        rcases he' with h | h
        · rw [h]; exact he
        · exact Or.inr h
  · have : step b (.poll i) = b := by simp only [step, hi, ↓reduceIte]
    rw [this]
    exact ⟨rfl, fun _ _ _ _ _ s => s, fun c => c, fun _ _ e => e⟩

theorem pres_adv {n1 a e0 : Nat} (b : Bus) (dt : Nat) : Pres n1 a e0 b (step b (.adv dt)) := by
  refine ⟨rfl, fun j nm A inb _ s => side_adv dt s, fun c => chgAt_adv dt c, fun inb _ e => ?_⟩
  obtain ⟨y, d, hk, hd, he⟩ := e
  exact ⟨{ y with s := { y.s with now := y.s.now + dt } }, d, by simp only [step, hk, kindAdv], hd, he⟩

/-- effective deliveries of a timed schedule -/
def effS (b : Bus) : List Sch → Nat
  | [] => 0
  | ev :: t =>
    (match ev with
     | .deliver i => if i < b.n ∧ (b.node i).inbox ≠ [] then 1 else 0
     | _ => 0) + effS (step b ev.toEv) t

/-- a schedule event keeps the phase (idle delivery, poll, clock advance) or is an effective delivery that consumes one -/
def ProgressS (P : Nat → Bus → Prop) (k : Nat) (b : Bus) (ev : Sch) : Prop :=
  (P k (step b ev.toEv) ∧ ∀ i, ev = .deliver i → i < b.n → (b.node i).inbox = []) ∨
  (∃ k' i, ev = .deliver i ∧ k = k' + 1 ∧ P k' (step b ev.toEv) ∧ i < b.n ∧ (b.node i).inbox ≠ [])

theorem converge_runS (P : Nat → Bus → Prop) (hstep : ∀ k b ev, P k b → ProgressS P k b ev) :
    ∀ (evs : List Sch) (k : Nat) (b : Bus), P k b → ∃ k', P k' (run b (evs.map Sch.toEv)) ∧ k' + effS b evs = k
  | [], k, b, h => ⟨k, h, rfl⟩
  | ev :: t, k, b, h => by
    simp only [List.map_cons, run, List.foldl_cons, effS]
    rcases hstep k b ev h with ⟨hp, hidle⟩ | ⟨k', i, hev, hk, hp, hi, hne⟩
    · obtain ⟨k2, h2, he⟩ := converge_runS P hstep t k _ hp
      refine ⟨k2, h2, ?_⟩
      have h0 : (match ev with
          | .deliver i => if i < b.n ∧ (b.node i).inbox ≠ [] then 1 else 0
          | _ => 0) = 0 := by
        cases ev with
        | deliver i =>
          have : ¬ (i < b.n ∧ (b.node i).inbox ≠ []) := fun hh => hh.2 (hidle i rfl hh.1)
          simp only [this, ↓reduceIte]
        | poll i => rfl
        | adv dt => rfl
      rw [h0]; simpa [run] using he
    · obtain ⟨k2, h2, he⟩ := converge_runS P hstep t k' _ hp
      refine ⟨k2, h2, ?_⟩
      subst hev
      simp only [hi, hne, ne_eq, not_false_eq_true, and_self, ↓reduceIte]
      omega

theorem phT_step (n0 n1 a e0 : Nat) (hlt : n0 < n1) (ha : a ≤ 251) (k : Nat) (b : Bus) (h : PhT n0 n1 a e0 k b) (ev : Sch) :
    ProgressS (PhT n0 n1 a e0) k b ev := by
  obtain ⟨hn, ⟨A0, in0, S0⟩, ⟨A1, in1, S1⟩⟩ := phT_sides h
  cases ev with
  | poll i => exact Or.inl ⟨phT_pres (pres_poll hn S0 S1 i) h, fun _ hh => by cases hh⟩
  | adv dt => exact Or.inl ⟨phT_pres (pres_adv b dt) h, fun _ hh => by cases hh⟩
  | deliver i =>
    obtain ⟨_, hk⟩ := h
    have hn' : (step b (.deliver i)).n = 2 := by rw [step_deliver_n]; exact hn
    have idle : ∀ {j nm A}, Side b j nm A [] → j = i → ProgressS (PhT n0 n1 a e0) k b (.deliver i) := by
      intro j nm A hs hj
      have e : step b (.deliver i) = b := by rw [← hj]; exact side_idle hs
      refine Or.inl ⟨?_, fun i' hi' _ => ?_⟩
      · show PhT n0 n1 a e0 k (step b (.deliver i)); rw [e]; exact ⟨hn, hk⟩
      · cases hi'; rw [← hj, hs.2.1]; rfl
    have far : 2 ≤ i → ProgressS (PhT n0 n1 a e0) k b (.deliver i) := by
      intro hi
      have e : step b (.deliver i) = b := step_far b i (by rw [hn]; omega)
      refine Or.inl ⟨?_, fun i' hi' hh => ?_⟩
      · show PhT n0 n1 a e0 k (step b (.deliver i)); rw [e]; exact ⟨hn, hk⟩
      · cases hi'; rw [hn] at hh; omega
    have ne0 : ∀ {nm A c r}, Side b 0 nm A (c :: r) → (0 : Nat) < b.n ∧ (b.node 0).inbox ≠ [] :=
      fun h => ⟨by rw [hn]; omega, by rw [h.2.1]; simp⟩
    have ne1 : ∀ {nm A c r}, Side b 1 nm A (c :: r) → (1 : Nat) < b.n ∧ (b.node 1).inbox ≠ [] :=
      fun h => ⟨by rw [hn]; omega, by rw [h.2.1]; simp⟩
    have rne : ∀ {r}, R a e0 r → r ≠ a := by
      intro r hr; rcases hr with h | h <;> rw [h] <;> exact nxt_ne _ _ ha
    have rOf : ∀ {d : Dev}, (d.endSource = e0 ∨ d.endSource = updEnd a) → R a e0 (nxt a d.endSource) := by
      intro d hd; rcases hd with h | h
      · left; rw [h]
      · right; rw [h]
    by_cases hi2 : 2 ≤ i
    · exact far hi2
    have hi : i < 2 := by omega
    show (PhT n0 n1 a e0 k (step b (.deliver i)) ∧ ∀ i', Sch.deliver i = .deliver i' → i' < b.n → (b.node i').inbox = []) ∨
      (∃ k' i', Sch.deliver i = .deliver i' ∧ k = k' + 1 ∧ PhT n0 n1 a e0 k' (step b (.deliver i)) ∧ i' < b.n ∧ (b.node i').inbox ≠ [])
    match k, hk with
    | 4, ⟨s0, s1, ⟨y, d, hky, hd, hde⟩⟩ =>
      rcases (by omega : i = 0 ∨ i = 1) with rfl | rfl
      · obtain ⟨x, dx, hkx, hdx⟩ := side_xd s0
        have t := (side_deliver (ne0 s0).1 (by omega) s0 s1 hkx hdx).2.1 ha rfl hlt
        refine Or.inr ⟨3, 0, rfl, rfl, ⟨hn', Or.inl ⟨t.1, by simpa using t.2, ?_⟩⟩, ne0 s0⟩
        exact ⟨y, d, by rw [kind_other_step b 0 1 (by omega)]; exact hky, hd, hde⟩
      · have t := (side_deliver (ne1 s1).1 (by omega) s1 s0 hky hd).2.2 ha rfl hlt
        exact Or.inr ⟨3, 1, rfl, rfl, ⟨hn', Or.inr ⟨_, rOf hde, by simpa using t.2.1, t.1, t.2.2⟩⟩, ne1 s1⟩
    | 3, hk =>
      rcases hk with ⟨s0, s1, ⟨y, d, hky, hd, hde⟩⟩ | ⟨r, hr, s0, s1, hc⟩
      · rcases (by omega : i = 0 ∨ i = 1) with rfl | rfl
        · exact idle s0 rfl
        · have t := (side_deliver (ne1 s1).1 (by omega) s1 s0 hky hd).2.2 ha rfl hlt
          exact Or.inr ⟨2, 1, rfl, rfl, ⟨hn', _, rOf hde, by simpa using t.2.1, t.1, t.2.2⟩, ne1 s1⟩
      · rcases (by omega : i = 0 ∨ i = 1) with rfl | rfl
        · obtain ⟨x, dx, hkx, hdx⟩ := side_xd s0
          have t := (side_deliver (ne0 s0).1 (by omega) s0 s1 hkx hdx).2.1 ha rfl hlt
          exact Or.inr ⟨2, 0, rfl, rfl, ⟨hn', r, hr, t.1, by simpa using t.2, chgAt_other (by omega) hc⟩, ne0 s0⟩
        · exact idle s1 rfl
    | 2, ⟨r, hr, s0, s1, hc⟩ =>
      rcases (by omega : i = 0 ∨ i = 1) with rfl | rfl
      · obtain ⟨x, dx, hkx, hdx⟩ := side_xd s0
        have t := (side_deliver (ne0 s0).1 (by omega) s0 s1 hkx hdx).1 (rne hr)
        exact Or.inr ⟨1, 0, rfl, rfl, ⟨hn', r, hr, Or.inl ⟨t.1, t.2⟩, chgAt_other (by omega) hc⟩, ne0 s0⟩
      · obtain ⟨y, dy, hky, hdy⟩ := side_xd s1
        have t := (side_deliver (ne1 s1).1 (by omega) s1 s0 hky hdy).1 (fun hh => rne hr hh.symm)
        exact Or.inr ⟨1, 1, rfl, rfl, ⟨hn', r, hr, Or.inr ⟨t.2, t.1⟩, chgAt_self s1 hc⟩, ne1 s1⟩
    | 1, ⟨r, hr, hs, hc⟩ =>
      rcases hs with ⟨s0, s1⟩ | ⟨s0, s1⟩
      · rcases (by omega : i = 0 ∨ i = 1) with rfl | rfl
        · exact idle s0 rfl
        · obtain ⟨y, dy, hky, hdy⟩ := side_xd s1
          have t := (side_deliver (ne1 s1).1 (by omega) s1 s0 hky hdy).1 (fun hh => rne hr hh.symm)
          exact Or.inr ⟨0, 1, rfl, rfl, ⟨hn', r, hr, t.2, t.1, chgAt_self s1 hc⟩, ne1 s1⟩
      · rcases (by omega : i = 0 ∨ i = 1) with rfl | rfl
        · obtain ⟨x, dx, hkx, hdx⟩ := side_xd s0
          have t := (side_deliver (ne0 s0).1 (by omega) s0 s1 hkx hdx).1 (rne hr)
          exact Or.inr ⟨0, 0, rfl, rfl, ⟨hn', r, hr, t.1, t.2, chgAt_other (by omega) hc⟩, ne0 s0⟩
        · exact idle s1 rfl
    | 0, ⟨r, hr, s0, s1, _⟩ =>
      rcases (by omega : i = 0 ∨ i = 1) with rfl | rfl
      · exact idle s0 rfl
      · exact idle s1 rfl

theorem phT_zero {n0 n1 a e0 : Nat} {b : Bus} (ha : a ≤ 251) (h : PhT n0 n1 a e0 0 b) :
    quiescent b ∧ claimants (b.node 0).kind = [(n0, a)] ∧
    (∃ r, R a e0 r ∧ r ≠ a ∧ claimants (b.node 1).kind = [(n1, r)]) ∧ ChgAt b 1 := by
  obtain ⟨hn, r, hr, s0, s1, hc⟩ := h
  refine ⟨fun i hi => ?_, side_claimants s0, ⟨r, hr, ?_, side_claimants s1⟩, hc⟩
  · rw [hn] at hi
    rcases (by omega : i = 0 ∨ i = 1) with rfl | rfl
    · rw [s0.2.1]; rfl
    · rw [s1.2.1]; rfl
  · rcases hr with h | h <;> rw [h] <;> exact nxt_ne _ _ ha

theorem phT_pending {n0 n1 a e0 : Nat} {b : Bus} {k : Nat} (h : PhT n0 n1 a e0 (k + 1) b) :
    ∃ i, i < b.n ∧ (b.node i).inbox ≠ [] := by
  obtain ⟨hn, hk⟩ := h
  have p0 : ∀ {nm A c r}, Side b 0 nm A (c :: r) → ∃ i, i < b.n ∧ (b.node i).inbox ≠ [] :=
    fun h => ⟨0, by rw [hn]; omega, by rw [h.2.1]; simp⟩
  have p1 : ∀ {nm A c r}, Side b 1 nm A (c :: r) → ∃ i, i < b.n ∧ (b.node i).inbox ≠ [] :=
    fun h => ⟨1, by rw [hn]; omega, by rw [h.2.1]; simp⟩
  match k, hk with
  | 3, hk => exact p0 hk.1
  | 2, hk =>
    rcases hk with hk | ⟨r, _, s0, _⟩
    · exact p1 hk.2.1
    · exact p0 s0
  | 1, ⟨r, _, s0, _⟩ => exact p0 s0
  | 0, ⟨r, _, hs, _⟩ =>
    rcases hs with ⟨_, s1⟩ | ⟨s0, _⟩
    · exact p1 s1
    · exact p0 s0

/-! ## library vs foreign node under timed schedules -/

theorem two_side0 {b : Bus} {n0 A : Nat} {f : Iso.Node} {in0 in1 : List Iso.Claim} (h : Two b n0 A f in0 in1) : Side b 0 n0 A in0 :=
  ⟨h.2.1, h.2.2.1, h.2.2.2.2.2.2.1⟩

/-- node 0's only device has the end-of-search address `e0`, or the one a claim-timer expiry at address `a` sets -/
def EndIn0 (b : Bus) (a e0 : Nat) : Prop :=
  ∃ x d, (b.node 0).kind = .lib x ∧ x.s.devs = [d] ∧ (d.endSource = e0 ∨ d.endSource = updEnd a)

theorem step_poll_next (b : Bus) (i : Nat) : (step b (.poll i)).next = b.next := by
  simp only [step]; split <;> rfl

/-- a poll of either node or a clock advance, seen from the library-vs-foreign phase tables -/
structure PresTwo (b b' : Bus) : Prop where
  next : b'.next = b.next
  two : ∀ n0 A f in0 in1, Two b n0 A f in0 in1 → Two b' n0 A f in0 in1
  chg : Chg b → Chg b'
  endIn : ∀ n0 a e0 f in0 in1, Two b n0 a f in0 in1 → EndIn0 b a e0 → EndIn0 b' a e0

theorem presTwo_poll {b : Bus} {n0 A : Nat} {f : Iso.Node} {in0 in1 : List Iso.Claim} (h : Two b n0 A f in0 in1) (i : Nat) :
    PresTwo b (step b (.poll i)) := by
  have hn := h.1
  by_cases hi : i < b.n
  · rw [hn] at hi
    rcases (by omega : i = 0 ∨ i = 1) with rfl | rfl
    · have sp := side_poll_self (by omega) (two_side0 h)
      refine ⟨step_poll_next b 0, fun n0' A' f' i0 i1 t => ?_, fun c => sp.2.2.1 c, fun n0' a e0 f' i0 i1 t e => ?_⟩
      · have sp' := side_poll_self (b := b) (i := 0) (by omega) (two_side0 t)
        obtain ⟨_, _, _, hk1, hst, h1, _, hb1⟩ := t
        refine ⟨by rw [step_poll_n]; exact hn, sp'.1.1, sp'.1.2.1, ?_, hst, ?_, sp'.1.2.2, hb1⟩
        · rw [sp.2.1 1 (by omega)]; exact hk1
        · rw [sp.2.1 1 (by omega)]; exact h1
      · obtain ⟨x, d, hk, hd, he⟩ := e
        obtain ⟨x', d', hk', hd', he'⟩ := (side_poll_self (b := b) (i := 0) (by omega) (two_side0 t)).2.2.2 x d hk hd
        refine ⟨x', d', hk', hd', ?_⟩
        rcases he' with h | h
        · rw [h]; exact he
        · exact Or.inr h
    · obtain ⟨_, _, _, hk1, hst, _⟩ := h
      have hstep : step b (.poll 1) = act b 1 (.foreign f, []) (b.node 1).inbox := by
        simp only [step, hn, show (1 : Nat) < 2 by omega, ↓reduceIte, hk1, kindPoll, Iso.start, hst, foreignOut, List.map_nil]
      have h0 : (step b (.poll 1)).node 0 = b.node 0 := by rw [hstep]; exact act_quiet_other b 1 0 (by omega) _ _
      have h1 : (step b (.poll 1)).node 1 = b.node 1 := by
        rw [hstep, act_node_self]; cases hb : b.node 1; rw [hb] at hk1; simp only at hk1; subst hk1; rfl
      refine ⟨step_poll_next b 1, fun n0' A' f' i0 i1 t => ?_, fun c => chgAt_congr h0 c, fun n0' a e0 f' i0 i1 t e => ?_⟩
      · unfold Two at *; rw [h0, h1, step_poll_n]; exact t
      · unfold EndIn0 at *; rw [h0]; exact e
  · have : step b (.poll i) = b := by simp only [step, hi, ↓reduceIte]
    rw [this]; exact ⟨rfl, fun _ _ _ _ _ t => t, fun c => c, fun _ _ _ _ _ _ _ e => e⟩

theorem presTwo_adv (b : Bus) (dt : Nat) : PresTwo b (step b (.adv dt)) := by
  refine ⟨rfl, fun n0 A f in0 in1 t => ?_, fun c => chgAt_adv dt c, fun n0 a e0 f in0 in1 _ e => ?_⟩
  · have s0 := side_adv dt (two_side0 t)
    obtain ⟨hn, _, _, hk1, hst, h1, _, hb1⟩ := t
    exact ⟨hn, s0.1, s0.2.1, by simp only [step, hk1, kindAdv], hst, by simp only [step]; exact h1, s0.2.2, hb1⟩
  · obtain ⟨x, d, hk, hd, he⟩ := e
    exact ⟨{ x with s := { x.s with now := x.s.now + dt } }, d, by simp only [step, hk, kindAdv], hd, he⟩

theorem phL_pres {n0 : Nat} {f0 : Iso.Node} {nx : Iso.Node → Nat} {k : Nat} {b b' : Bus} (p : PresTwo b b')
    (h : PhL n0 f0 nx k b) : PhL n0 f0 nx k b' := by
  obtain ⟨hnext, hk⟩ := h
  refine ⟨by rw [p.next]; exact hnext, ?_⟩
  match k, hk with
  | 4, hk => exact p.two _ _ _ _ _ hk
  | 3, hk => exact hk.elim (fun h => Or.inl (p.two _ _ _ _ _ h)) (fun h => Or.inr (p.two _ _ _ _ _ h))
  | 2, hk => exact p.two _ _ _ _ _ hk
  | 1, hk => exact hk.elim (fun h => Or.inl (p.two _ _ _ _ _ h)) (fun h => Or.inr (p.two _ _ _ _ _ h))
  | 0, hk => exact p.two _ _ _ _ _ hk

theorem phL_two {n0 : Nat} {f0 : Iso.Node} {nx : Iso.Node → Nat} {k : Nat} {b : Bus} (h : PhL n0 f0 nx k b) :
    ∃ A f in0 in1, Two b n0 A f in0 in1 := by
  obtain ⟨_, hk⟩ := h
  match k, hk with
  | 4, hk => exact ⟨_, _, _, _, hk⟩
  | 3, hk => exact hk.elim (fun h => ⟨_, _, _, _, h⟩) (fun h => ⟨_, _, _, _, h⟩)
  | 2, hk => exact ⟨_, _, _, _, hk⟩
  | 1, hk => exact hk.elim (fun h => ⟨_, _, _, _, h⟩) (fun h => ⟨_, _, _, _, h⟩)
  | 0, hk => exact ⟨_, _, _, _, hk⟩

/-- lift a delivery-only progress step to the timed progress notion -/
theorem progressS_of_progress {P : Nat → Bus → Prop} {k : Nat} {b : Bus} {i : Nat} (hp : P k b) (h : Progress P k b i) :
    ProgressS P k b (.deliver i) := by
  rcases h with ⟨hs, hidle⟩ | ⟨k', hk, hp', hi, hne⟩
  · refine Or.inl ⟨?_, fun i' hi' hlt => ?_⟩
    · show P k (step b (.deliver i)); rw [hs]; exact hp
    · cases hi'; exact hidle hlt
  · exact Or.inr ⟨k', i, rfl, hk, hp', hi, hne⟩

theorem phL_stepS (n0 : Nat) (f0 : Iso.Node) (nx : Iso.Node → Nat) (hlt : n0 < f0.name) (hn1 : f0.name < 2^64)
    (ha : f0.addr ≤ 251) (hnx : ∀ f, nx f < 256) (hne : nx f0 ≠ f0.addr) (k : Nat) (b : Bus) (h : PhL n0 f0 nx k b) (ev : Sch) :
    ProgressS (PhL n0 f0 nx) k b ev := by
  obtain ⟨A, f, in0, in1, t⟩ := phL_two h
  cases ev with
  | deliver i => exact progressS_of_progress h (phL_step n0 f0 nx hlt hn1 ha hnx hne k b h i)
  | poll i => exact Or.inl ⟨phL_pres (presTwo_poll t i) h, fun _ hh => by cases hh⟩
  | adv dt => exact Or.inl ⟨phL_pres (presTwo_adv b dt) h, fun _ hh => by cases hh⟩

/-- timed phase table of the mirror case (library device with the higher NAME moves) -/
def PhHt (n0 : Nat) (f0 : Iso.Node) (e0 : Nat) (nx : Iso.Node → Nat) (k : Nat) (b : Bus) : Prop :=
  let a := f0.addr; let n1 := f0.name
  b.next = nx ∧
  match k with
  | 4 => Two b n0 a f0 [(n1, a)] [(n0, a)] ∧ EndIn0 b a e0
  | 3 => (∃ r, R a e0 r ∧ Two b n0 r f0 [] [(n0, a), (n0, r)] ∧ Chg b) ∨ (Two b n0 a f0 [(n1, a), (n1, a)] [] ∧ EndIn0 b a e0)
  | 2 => ∃ r, R a e0 r ∧ Two b n0 r f0 [(n1, a)] [(n0, r)] ∧ Chg b
  | 1 => ∃ r, R a e0 r ∧ (Two b n0 r f0 [] [(n0, r)] ∨ Two b n0 r f0 [(n1, a)] []) ∧ Chg b
  | 0 => ∃ r, R a e0 r ∧ Two b n0 r f0 [] [] ∧ Chg b
  | _ => False

theorem phHt_pres {n0 : Nat} {f0 : Iso.Node} {e0 : Nat} {nx : Iso.Node → Nat} {k : Nat} {b b' : Bus} (p : PresTwo b b')
    (h : PhHt n0 f0 e0 nx k b) : PhHt n0 f0 e0 nx k b' := by
  obtain ⟨hnext, hk⟩ := h
  refine ⟨by rw [p.next]; exact hnext, ?_⟩
  match k, hk with
  | 4, ⟨t, e⟩ => exact ⟨p.two _ _ _ _ _ t, p.endIn _ _ _ _ _ _ t e⟩
  | 3, hk =>
    rcases hk with ⟨r, hr, t, c⟩ | ⟨t, e⟩
    · exact Or.inl ⟨r, hr, p.two _ _ _ _ _ t, p.chg c⟩
    · exact Or.inr ⟨p.two _ _ _ _ _ t, p.endIn _ _ _ _ _ _ t e⟩
  | 2, ⟨r, hr, t, c⟩ => exact ⟨r, hr, p.two _ _ _ _ _ t, p.chg c⟩
  | 1, ⟨r, hr, ht, c⟩ => exact ⟨r, hr, ht.elim (fun t => Or.inl (p.two _ _ _ _ _ t)) (fun t => Or.inr (p.two _ _ _ _ _ t)), p.chg c⟩
  | 0, ⟨r, hr, t, c⟩ => exact ⟨r, hr, p.two _ _ _ _ _ t, p.chg c⟩

theorem phHt_two {n0 : Nat} {f0 : Iso.Node} {e0 : Nat} {nx : Iso.Node → Nat} {k : Nat} {b : Bus} (h : PhHt n0 f0 e0 nx k b) :
    ∃ A f in0 in1, Two b n0 A f in0 in1 := by
  obtain ⟨_, hk⟩ := h
  match k, hk with
  | 4, ⟨t, _⟩ => exact ⟨_, _, _, _, t⟩
  | 3, hk =>
    rcases hk with ⟨r, _, t, _⟩ | ⟨t, _⟩
    · exact ⟨_, _, _, _, t⟩
    · exact ⟨_, _, _, _, t⟩
  | 2, ⟨r, _, t, _⟩ => exact ⟨_, _, _, _, t⟩
  | 1, ⟨r, _, ht, _⟩ => exact ht.elim (fun t => ⟨_, _, _, _, t⟩) (fun t => ⟨_, _, _, _, t⟩)
  | 0, ⟨r, _, t, _⟩ => exact ⟨_, _, _, _, t⟩

theorem phHt_step (n0 : Nat) (f0 : Iso.Node) (e0 : Nat) (nx : Iso.Node → Nat) (hgt : f0.name < n0) (hn1 : f0.name < 2^64)
    (ha : f0.addr ≤ 251) (hnx : ∀ f, nx f < 256) (k : Nat) (b : Bus) (h : PhHt n0 f0 e0 nx k b) (i : Nat) :
    Progress (PhHt n0 f0 e0 nx) k b i := by
  obtain ⟨hnext, hk⟩ := h
  have rne : ∀ {r}, R f0.addr e0 r → r ≠ f0.addr := by
    intro r hr; rcases hr with h | h <;> rw [h] <;> exact nxt_ne _ _ ha
  have rOf : ∀ {d : Dev}, (d.endSource = e0 ∨ d.endSource = updEnd f0.addr) → R f0.addr e0 (nxt f0.addr d.endSource) := by
    intro d hd; rcases hd with h | h
    · left; rw [h]
    · right; rw [h]
  have hn2 : ∀ {A f in0 in1}, Two b n0 A f in0 in1 → b.n = 2 := fun h => h.1
  have nxt' : (step b (.deliver i)).next = nx := by rw [step_deliver_next]; exact hnext
  have idle0 : ∀ {A f in1}, Two b n0 A f [] in1 → Progress (PhHt n0 f0 e0 nx) k b 0 :=
    fun h => Or.inl ⟨two_idle0 h, fun _ => by rw [two_inbox0 h]; rfl⟩
  have idle1 : ∀ {A f in0}, Two b n0 A f in0 [] → Progress (PhHt n0 f0 e0 nx) k b 1 :=
    fun h => Or.inl ⟨two_idle1 h, fun _ => by rw [two_inbox1 h]; rfl⟩
  have far : ∀ {A f in0 in1}, Two b n0 A f in0 in1 → 2 ≤ i → Progress (PhHt n0 f0 e0 nx) k b i :=
    fun h hi => Or.inl ⟨step_far b i (by rw [hn2 h]; omega), fun hh => by rw [hn2 h] at hh; omega⟩
  have hnxb : b.next f0 < 256 := by rw [hnext]; exact hnx f0
  match k, hk with
  | 4, ⟨hk, ⟨x, d, hkx, hd, hde⟩⟩ =>
    rcases Nat.lt_or_ge i 2 with hi | hi
    · rcases (by omega : i = 0 ∨ i = 1) with rfl | rfl
      · have t := two_deliver0_move hk hkx hd ha rfl hgt
        exact Or.inr ⟨3, rfl, ⟨nxt', Or.inl ⟨_, rOf hde, by simpa using t.1, t.2⟩⟩, by rw [hn2 hk]; omega, by rw [two_inbox0 hk]; simp⟩
      · refine Or.inr ⟨3, rfl, ⟨nxt', Or.inr ⟨?_, ⟨x, d, by rw [kind0_step1 hk]; exact hkx, hd, hde⟩⟩⟩, by rw [hn2 hk]; omega,
          by rw [two_inbox1 hk]; simp⟩
        simpa using (two_deliver1 hk hn1 (by omega) hnxb).2.1 rfl ha hgt
    · exact far hk hi
  | 3, hk =>
    rcases hk with ⟨r, hr, hk, hc⟩ | ⟨hk, ⟨x, d, hkx, hd, hde⟩⟩
    · rcases Nat.lt_or_ge i 2 with hi | hi
      · rcases (by omega : i = 0 ∨ i = 1) with rfl | rfl
        · exact idle0 hk
        · refine Or.inr ⟨2, rfl, ⟨nxt', r, hr, ?_, chg_step1 hk hc⟩, by rw [hn2 hk]; omega, by rw [two_inbox1 hk]; simp⟩
          simpa using (two_deliver1 hk hn1 (by omega) hnxb).2.1 rfl ha hgt
      · exact far hk hi
    · rcases Nat.lt_or_ge i 2 with hi | hi
      · rcases (by omega : i = 0 ∨ i = 1) with rfl | rfl
        · have t := two_deliver0_move hk hkx hd ha rfl hgt
          exact Or.inr ⟨2, rfl, ⟨nxt', _, rOf hde, by simpa using t.1, t.2⟩, by rw [hn2 hk]; omega, by rw [two_inbox0 hk]; simp⟩
        · exact idle1 hk
      · exact far hk hi
  | 2, ⟨r, hr, hk, hc⟩ =>
    rcases Nat.lt_or_ge i 2 with hi | hi
    · rcases (by omega : i = 0 ∨ i = 1) with rfl | rfl
      · refine Or.inr ⟨1, rfl, ⟨nxt', r, hr, Or.inl ?_, chg_step0 hk hc⟩, by rw [hn2 hk]; omega, by rw [two_inbox0 hk]; simp⟩
        exact (two_deliver0 hk).1 (fun hh => rne hr hh.symm)
      · refine Or.inr ⟨1, rfl, ⟨nxt', r, hr, Or.inr ?_, chg_step1 hk hc⟩, by rw [hn2 hk]; omega, by rw [two_inbox1 hk]; simp⟩
        exact (two_deliver1 hk hn1 (by omega) hnxb).1 (fun hh => rne hr hh.1)
    · exact far hk hi
  | 1, ⟨r, hr, ht, hc⟩ =>
    rcases ht with hk | hk
    · rcases Nat.lt_or_ge i 2 with hi | hi
      · rcases (by omega : i = 0 ∨ i = 1) with rfl | rfl
        · exact idle0 hk
        · refine Or.inr ⟨0, rfl, ⟨nxt', r, hr, ?_, chg_step1 hk hc⟩, by rw [hn2 hk]; omega, by rw [two_inbox1 hk]; simp⟩
          exact (two_deliver1 hk hn1 (by omega) hnxb).1 (fun hh => rne hr hh.1)
      · exact far hk hi
    · rcases Nat.lt_or_ge i 2 with hi | hi
      · rcases (by omega : i = 0 ∨ i = 1) with rfl | rfl
        · refine Or.inr ⟨0, rfl, ⟨nxt', r, hr, ?_, chg_step0 hk hc⟩, by rw [hn2 hk]; omega, by rw [two_inbox0 hk]; simp⟩
          exact (two_deliver0 hk).1 (fun hh => rne hr hh.symm)
        · exact idle1 hk
      · exact far hk hi
  | 0, ⟨r, hr, hk, _⟩ =>
    rcases Nat.lt_or_ge i 2 with hi | hi
    · rcases (by omega : i = 0 ∨ i = 1) with rfl | rfl
      · exact idle0 hk
      · exact idle1 hk
    · exact far hk hi

theorem phHt_stepS (n0 : Nat) (f0 : Iso.Node) (e0 : Nat) (nx : Iso.Node → Nat) (hgt : f0.name < n0) (hn1 : f0.name < 2^64)
    (ha : f0.addr ≤ 251) (hnx : ∀ f, nx f < 256) (k : Nat) (b : Bus) (h : PhHt n0 f0 e0 nx k b) (ev : Sch) :
    ProgressS (PhHt n0 f0 e0 nx) k b ev := by
  obtain ⟨A, f, in0, in1, t⟩ := phHt_two h
  cases ev with
  | deliver i => exact progressS_of_progress h (phHt_step n0 f0 e0 nx hgt hn1 ha hnx k b h i)
  | poll i => exact Or.inl ⟨phHt_pres (presTwo_poll t i) h, fun _ hh => by cases hh⟩
  | adv dt => exact Or.inl ⟨phHt_pres (presTwo_adv b dt) h, fun _ hh => by cases hh⟩

theorem phHt_zero {n0 : Nat} {f0 : Iso.Node} {e0 : Nat} {nx : Iso.Node → Nat} {b : Bus} (ha : f0.addr ≤ 251)
    (h : PhHt n0 f0 e0 nx 0 b) :
    quiescent b ∧ (∃ r, R f0.addr e0 r ∧ r ≠ f0.addr ∧ claimants (b.node 0).kind = [(n0, r)]) ∧
    claimants (b.node 1).kind = [(f0.name, f0.addr)] ∧ Chg b := by
  obtain ⟨_, r, hr, ⟨hn, ⟨x, hk, hx⟩, h0, hk1, hst, h1, _⟩, hc⟩ := h
  refine ⟨fun i hi => ?_, ⟨r, hr, ?_, ?_⟩, ?_, hc⟩
  · rw [hn] at hi
    rcases (by omega : i = 0 ∨ i = 1) with rfl | rfl
    · rw [h0]; rfl
    · rw [h1]; rfl
  · rcases hr with h | h <;> rw [h] <;> exact nxt_ne _ _ ha
  · rw [hk]; simp only [claimants, hx.2.1, ↓reduceIte]; exact hx.2.2
  · rw [hk1]; simp only [claimants]; rw [if_pos hst]

theorem phHt_pending {n0 : Nat} {f0 : Iso.Node} {e0 : Nat} {nx : Iso.Node → Nat} {b : Bus} {k : Nat}
    (h : PhHt n0 f0 e0 nx (k + 1) b) : ∃ i, i < b.n ∧ (b.node i).inbox ≠ [] := by
  obtain ⟨_, hk⟩ := h
  have p0 : ∀ {A f c r in1}, Two b n0 A f (c :: r) in1 → ∃ i, i < b.n ∧ (b.node i).inbox ≠ [] :=
    fun h => ⟨0, by rw [h.1]; omega, by rw [two_inbox0 h]; simp⟩
  have p1 : ∀ {A f c r in0}, Two b n0 A f in0 (c :: r) → ∃ i, i < b.n ∧ (b.node i).inbox ≠ [] :=
    fun h => ⟨1, by rw [h.1]; omega, by rw [two_inbox1 h]; simp⟩
  match k, hk with
  | 3, hk => exact p0 hk.1
  | 2, hk =>
    rcases hk with ⟨r, _, t, _⟩ | ⟨t, _⟩
    · exact p1 t
    · exact p0 t
  | 1, ⟨r, _, t, _⟩ => exact p0 t
  | 0, ⟨r, _, ht, _⟩ => exact ht.elim (fun t => p1 t) (fun t => p0 t)

end N2k.Bus
