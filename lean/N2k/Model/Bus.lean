import N2k.Model.Claim
import N2k.Spec.Iso11783
/-!
# A bus of `n` claimants: library instances and foreign ISO 11783-5 nodes

The bus is an atomic broadcast: the frames a node sends during a step are appended, in order, to the inbox of
every *other* node that is on the bus (a library instance that is open, a foreign node that has started). A node
that is not on the bus yet has no address and receives nothing; it announces itself when it opens / starts.
Nothing is lost and nothing is reordered between one sender and one receiver.

Steps (`Ev`): node `i` processes the head of its inbox; node `i` is polled (`ParseMessages` with nothing to read:
this is where a library instance opens and its claim timers expire; a foreign node starts); the clock advances;
a commanded-address message reaches node `i`; the application of node `i` calls `Restart()`.
-/
namespace N2k.Bus
open N2k.Send N2k.Time N2k.Claim

inductive Kind where
  | lib (x : Inst)
  | foreign (f : Iso.Node)

structure BNode where
  kind : Kind
  inbox : List Frame

structure Bus where
  n : Nat
  node : Nat → BNode
  next : Iso.Node → Nat := Iso.nextAddr      -- next-address choice of the foreign nodes

def frameOfClaim (c : Iso.Claim) : Frame :=
  let e := Iso.encodeClaim c
  ⟨e.1, e.2.1, e.2.2⟩

def onBus : Kind → Bool
  | .lib x => x.s.openState == 3
  | .foreign f => f.started

def setNode (b : Bus) (i : Nat) (x : BNode) : Bus := { b with node := fun j => if j = i then x else b.node j }

/-- atomic broadcast of `fs` by node `i` -/
def bcast (b : Bus) (i : Nat) (fs : List Frame) : Bus :=
  { b with node := fun j =>
      if j = i then b.node j
      else if onBus (b.node j).kind then { b.node j with inbox := (b.node j).inbox ++ fs }
      else b.node j }

/-- forget what the driver accepted during earlier steps -/
def clearSent (x : Inst) : Inst := { x with s := { x.s with drv := { x.s.drv with sent := [] } } }

/-- a library instance runs `ParseMessages` on `rx`; the frames its driver accepted go onto the bus -/
def libParse (x : Inst) (rx : List Rx) : Inst × List Frame :=
  let x' := parse (clearSent x) rx
  (x', x'.s.drv.sent)

def libRestart (x : Inst) : Inst × List Frame :=
  let x' := restart (clearSent x)
  (x', x'.s.drv.sent)

def foreignOut (r : Iso.Node × List Iso.Claim) : Kind × List Frame := (.foreign r.1, r.2.map frameOfClaim)

/-- node reaction to the frame at the head of its inbox -/
def kindRx (next : Iso.Node → Nat) : Kind → Frame → Kind × List Frame
  | .lib x, f => let r := libParse x [.frame f]; (.lib r.1, r.2)
  | .foreign n, f =>
    match Iso.decodeClaim f.id f.len f.data with
    | some c => foreignOut (Iso.onClaim next n c)
    | none => (.foreign n, [])

def kindPoll : Kind → Kind × List Frame
  | .lib x => let r := libParse x []; (.lib r.1, r.2)
  | .foreign n => foreignOut (Iso.start n)

def kindCmd : Kind → Nat → Nat → Nat → Kind × List Frame
  | .lib x, dst, nm, a => let r := libParse x [.cmd dst nm a]; (.lib r.1, r.2)
  | .foreign n, _, nm, a => foreignOut (Iso.onCommanded n nm a)

def kindRestart : Kind → Kind × List Frame
  | .lib x => let r := libRestart x; (.lib r.1, r.2)
  | .foreign n => (.foreign n, [])

def kindAdv (dt : Nat) : Kind → Kind
  | .lib x => .lib { x with s := { x.s with now := x.s.now + dt } }
  | .foreign n => .foreign n

inductive Ev where
  | deliver (i : Nat)
  | poll (i : Nat)
  | adv (dt : Nat)
  | cmd (i dst name addr : Nat)
  | restart (i : Nat)
  deriving Repr

/-- node `i` becomes `r.1` with inbox `inb` and broadcasts `r.2` -/
def act (b : Bus) (i : Nat) (r : Kind × List Frame) (inb : List Frame) : Bus :=
  bcast (setNode b i ⟨r.1, inb⟩) i r.2

def step (b : Bus) : Ev → Bus
  | .deliver i =>
    if i < b.n then
      match (b.node i).inbox with
      | [] => b
      | f :: rest => act b i (kindRx b.next (b.node i).kind f) rest
    else b
  | .poll i => if i < b.n then act b i (kindPoll (b.node i).kind) (b.node i).inbox else b
  | .adv dt => { b with node := fun j => { b.node j with kind := kindAdv dt (b.node j).kind } }
  | .cmd i dst nm a => if i < b.n then act b i (kindCmd (b.node i).kind dst nm a) (b.node i).inbox else b
  | .restart i => if i < b.n then act b i (kindRestart (b.node i).kind) (b.node i).inbox else b

def run (b : Bus) (evs : List Ev) : Bus := evs.foldl step b

/-- the (NAME, address) pairs node `k` has on the bus -/
def claimants : Kind → List Iso.Claim
  | .lib x => if x.s.openState = 3 then x.s.devs.map (fun d => (d.name, d.source)) else []
  | .foreign f => if f.started then [(f.name, f.addr)] else []

def quiescent (b : Bus) : Prop := ∀ i, i < b.n → (b.node i).inbox = []

end N2k.Bus
