// C15 harness: REAL SetN2kPGNxxx bytes against a table-driven bit-field encoder built from the PUBLISHED layouts
// (build/gen/published_layouts.h, the C++ copy of the frozen Lean table lean/N2k/Spec/PublishedLayouts.lean).
// ops:  set <id> c0 c1 ...   exactly the `set` op of the C05 harness (harness/layout.cpp, included below): the real setter
//                            is called on the tuple, the line printed is its payload as the Lean driver prints it
//       pgnlist <tr> p1 p2 … SetN2kPGN126464 with that list (repeated field, no layout: oracle only)      -> no-layout
// Oracle (independent of the library's parser and of the Lean model): for every published field with a library
// parameter the payload bits [offset, offset+length) must hold, little endian, the value an independent implementation
// of the published definition encodes: round(value / published resolution) for scaled fields, NA -> the published NA
// pattern of the field's length and signedness, the integer itself for integers, enumerations and flags.
// Key: C15:<pgn>:<published field name>.
#define LAYOUT_NO_MAIN
#include "layout.cpp"
#include "node.h"
#include "published_layouts.h"

static std::string fieldKey(const char *id, const char *name) {
  std::string k = std::string("C15:") + id + ":";
  for (const char *c = name; *c; c++) k += (isalnum((unsigned char)*c) ? *c : '_');
  return k;
}
static u64 bitsAt(const std::vector<unsigned char> &b, int off, int len, bool &ok) {
  u64 v = 0; ok = true;
  for (int i = 0; i < len && i < 64; i++) {
    int k = off + i;
    if ((size_t)(k / 8) >= b.size()) { ok = false; return 0; }
    v |= (u64)((b[k / 8] >> (k % 8)) & 1) << i;
  }
  return v;
}
static u64 pubNA(int len, bool sgn) { return sgn ? (maskBits(len) >> 1) : maskBits(len); }

static void checkPublished(const lg::Pair &p, const pub::L &L) {
  Last &last = g_last[p.id];
  if (!last.valid) return;
  std::vector<unsigned char> bytes = unhex(last.payloadHex);
  // repeated records: the count field on the wire and the number of records that follow must agree (count NA = none)
  for (int r_ = 0; r_ < pub::nRepeats; r_++) {
    const pub::Rep &R = pub::repeats[r_];
    if (R.pgn != p.pgn || strchr(L.id, '_')) continue;      // once per message (not again for a path table)
    bool okc; u64 cnt = bitsAt(bytes, R.off, 8, okc);
    C.count("record_count_checks");
    size_t want = (size_t)R.base + (size_t)R.rec * (size_t)((!okc || cnt == 255) ? 0 : cnt);
    if (!okc || bytes.size() != want)
      C.fail(fieldKey(p.id, "record count"), "count field says %llu, payload has %zu bytes, the published layout needs %zu", cnt, bytes.size(), want);
    else C.nontrivial(std::string(p.id) + "/records/" + std::to_string(cnt));
  }
  for (int k = 0; k < L.n; k++) {
    const pub::F &f = L.f[k];
    if (f.konst >= 0) {          // the function has no parameter for this field and must write this constant
      bool okc; u64 gotc = bitsAt(bytes, f.off, f.len, okc);
      C.count("published_constant_checks");
      if (!okc || gotc != ((u64)f.konst & maskBits(f.len)))
        C.fail(fieldKey(p.id, f.name), "bits [%d,%d) hold %llu, the published constant for this function is %lld", f.off, f.off + f.len, gotc, f.konst);
      continue;
    }
    if (!f.param) continue;
    int i = -1;
    for (int j = 0; j < p.nf; j++) if (!strcmp(p.f[j].name, f.param)) i = j;
    if (i < 0) { C.fail(fieldKey(p.id, f.name), "the setter has no parameter %s", f.param); continue; }
    const lg::Field &lf = p.f[i];
    const Cell &in = last.in[i];
    double res = (double)f.resNum; for (int e = 0; e < f.resExp; e++) res /= 10.0;
    if (f.resExp > 0) { double d = 1; for (int e = 0; e < f.resExp; e++) d *= 10.0; res = (double)f.resNum / d; }
    C.nontrivial(std::string(p.id) + "/" + f.name + "/" + in.cls);
    C.count("published_field_checks");
    if (lf.kind == lg::K_TEXT) {
      // fixed-length text: the characters at the start of the field, the rest padding
      std::string want = in.v.s; if ((int)want.size() > f.len / 8) want.resize(f.len / 8);
      for (int c = 0; c < f.len / 8; c++) {
        size_t at = (size_t)(f.off / 8 + c);
        if (at >= bytes.size()) { C.fail(fieldKey(p.id, f.name), "field lies beyond the payload"); break; }
        unsigned char b = bytes[at];
        bool good = c < (int)want.size() ? b == (unsigned char)want[c] : (b == 0xff || b == 0x00 || b == '@' || b == ' ');
        if (!good) { C.fail(fieldKey(p.id, f.name), "byte %d of text '%s' is 0x%02x", c, want.c_str(), b); break; }
      }
      continue;
    }
    u64 expect;
    if (lf.kind == lg::K_SCALED) {
      if (in.v.d == NA_D) expect = pubNA(f.len, f.sgn);
      else {
        long long code = llround(in.v.d / res);
        // documented range only: between the minimum and the out-of-range code of the published field
        long long hi = (long long)pubNA(f.len >= 64 ? 63 : f.len, f.sgn) - 1, lo = f.sgn ? -(long long)(maskBits(f.len >= 64 ? 63 : f.len) >> 1) - 1 : 0;
        if (f.len < 64 && (code > hi || code < lo)) { C.count("published_out_of_range_skipped"); continue; }
        expect = (u64)code & maskBits(f.len);
      }
    } else {
      long long v = in.v.i;
      bool typeNA = (lf.kind == lg::K_SINT || lf.kind == lg::K_UINT) && !strcmp(in.cls, "NA") && lf.typeBits == f.len;
      if (typeNA) expect = pubNA(f.len, f.sgn);          // "not available" of the parameter's type must be the field's NA
      else if (f.resNum != 1 || f.resExp != 0) {
        // integer parameter in a coarser published unit: truncated quotient; a value above the largest valid code
        // (the three highest codes of an unsigned field are reserved / out of range / NA) must give "out of range"
        long long top = (long long)pubNA(f.len, f.sgn) - 3;
        if (v < 0 || (unsigned long long)v > (unsigned long long)top * (unsigned long long)f.resNum) expect = pubNA(f.len, f.sgn) - 1;
        else expect = (u64)(v / f.resNum) & maskBits(f.len);
      } else expect = (u64)v & maskBits(f.len);
    }
    bool ok; u64 got = bitsAt(bytes, f.off, f.len, ok);
    if (!ok) { C.fail(fieldKey(p.id, f.name), "field lies beyond the payload (%zu bytes)", bytes.size()); continue; }
    // enumerated field: the value that was passed is looked up BY NAME among the library's enumerators (their values as the
    // compiler sees them in the real headers); the wire must carry the PUBLISHED numeric code of that name
    if (lf.kind == lg::K_ENUM) {
      for (int e = 0; e < pub::nEnumFields; e++) {
        const pub::EF &ef = pub::enumFields[e];
        if (strcmp(ef.id, L.id) || strcmp(ef.field, f.name)) continue;
        for (int k2 = 0; k2 < ef.n; k2++) {
          long long lib = 0; bool found = false;
          for (int q = 0; q < lg::nEnumVals; q++) if (!strcmp(lg::enumVals[q].name, ef.ev[k2].name)) { lib = lg::enumVals[q].value; found = true; }
          if (!found) { C.fail(fieldKey(p.id, f.name), "the library has no enumerator %s", ef.ev[k2].name); continue; }
          if (lib != in.v.i) continue;
          C.count("published_code_point_checks");
          u64 want = (u64)ef.ev[k2].code & maskBits(f.len);
          if (got != want) C.fail(fieldKey(p.id, f.name), "%s passed, bits [%d,%d) hold %llu, the published code is %llu", ef.ev[k2].name, f.off, f.off + f.len, got, want);
        }
      }
    }
    if (got != expect)
      C.fail(fieldKey(p.id, f.name), "bits [%d,%d) hold %llu, the published definition gives %llu (%s class %s)", f.off, f.off + f.len, got, expect, f.param, in.cls);
  }
}

static const pub::L *layoutOf(const std::string &id) { for (int i = 0; i < pub::nLayouts; i++) if (id == pub::layouts[i].id) return &pub::layouts[i]; return nullptr; }
// the published table a public setter (main function, overload or alias wrapper) is held against: its own (parameters
// differ: one bool per status bit, fixed reference, NAME as a whole), else the table of its PGN; null = PGN not listed
static const pub::L *layoutFor(const lg::Pair &p) {
  for (int i = 0; i < pub::nWrapperLayouts; i++) if (!strcmp(pub::wrapperLayouts[i].id, p.setterKey)) return &pub::wrapperLayouts[i];
  return layoutOf(std::to_string(p.pgn));
}

static void execPgnList(const std::string &line) {
  C.op("%s", line.c_str()); C.cases++;
  std::vector<std::string> w = split(line);
  std::vector<unsigned long> l;
  for (size_t i = 2; i < w.size(); i++) l.push_back(strtoul(w[i].c_str(), nullptr, 10));
  l.push_back(0);
  tN2kMsg m;
  SetN2kPGN126464(m, 255, (tN2kPGNList)strtoul(w[1].c_str(), nullptr, 10), l.data());
  C.out("no-layout");        // repeated field: outside the layout language, the driver says so
  // published: function code (8 bits), then one 24-bit little-endian PGN per entry
  std::vector<unsigned char> want; want.push_back((unsigned char)strtoul(w[1].c_str(), nullptr, 10));
  for (size_t i = 0; i + 1 < l.size(); i++) { want.push_back(l[i] & 0xff); want.push_back((l[i] >> 8) & 0xff); want.push_back((l[i] >> 16) & 0xff); }
  if (m.PGN != 126464UL || (size_t)m.DataLen != want.size() || memcmp(m.Data, want.data(), want.size()))
    C.fail("C15:126464:PGN_list", "payload %s, published encoding %s", hex(m.Data, m.DataLen).c_str(), hex(want.data(), want.size()).c_str());
  if (w[1] == "0") {      // the alias wrapper of the headers must give the same message
    tN2kMsg m2; SetN2kPGNTransmitList(m2, 255, l.data());
    if (m2.PGN != m.PGN || m2.DataLen != m.DataLen || memcmp(m2.Data, m.Data, m.DataLen))
      C.fail("C15:126464:PGN_list", "SetN2kPGNTransmitList gives %s", hex(m2.Data, m2.DataLen).c_str());
  }
  C.count("pgnlist_checks");
}

// prodinfo <seed>: PGN 126996 as the NODE sends it from its stored product information (SetProductInformation ->
// SendProductInformation behind the mock driver), not through a direct setter call: the frames are reassembled and held
// against the published table - strings of 0, 1, 31 and exactly 32 characters (the full field) included.
static void execProdInfo(const std::string &line) {
  C.op("%s", line.c_str()); C.cases++;
  std::vector<std::string> w = split(line);
  Rng r(strtoull(w[1].c_str(), nullptr, 10) * 0x9E3779B97F4A7C15ULL + 23);
  static const int lens[] = {0, 1, 31, 32, 32, 17};
  std::string str[4]; for (auto &x : str) x = randText(r, lens[r.below(6)]);
  unsigned code = (unsigned)r.below(65533), ver = 1000 + (unsigned)r.below(2000); unsigned char le = (unsigned char)(1 + r.below(50)), cert = (unsigned char)r.below(3);
  vh::g_now = 1000;
  {
    vh::MockN2k n;
    n.SetProductInformation(str[3].c_str(), code, str[0].c_str(), str[1].c_str(), str[2].c_str(), le, ver, cert);
    n.SetMode(tNMEA2000::N2km_NodeOnly, 34);
    n.EnableForward(false);
    n.Open();
    vh::openAndSettle(n);
    n.sent.clear();
    bool okSend = n.SendProductInformation(0);
    for (int i = 0; i < 50; i++) { n.ParseMessages(); vh::g_now++; }
    // reassemble the fast packet of PGN 126996
    std::vector<unsigned char> pl; int total = -1;
    for (auto &f : n.sent) {
      unsigned long pgn = (f.id >> 8) & 0x3ffff; if (((pgn >> 8) & 0xff) < 240) pgn &= 0x3ff00;
      if (pgn != 126996UL) continue;
      if ((f.buf[0] & 0x1f) == 0) { total = f.buf[1]; for (int k = 2; k < f.len; k++) pl.push_back(f.buf[k]); }
      else for (int k = 1; k < f.len; k++) pl.push_back(f.buf[k]);
    }
    if (total >= 0 && (int)pl.size() > total) pl.resize(total);
    C.out("no-layout");
    const pub::L *L = layoutOf("126996");
    if (!okSend || total != 134 || !L) { C.fail("C15:126996:node", "SendProductInformation sent %d payload bytes (ok=%d)", total, (int)okSend); return; }
    const std::string want[4] = {str[0], str[1], str[2], str[3]};
    const char *names[4] = {"Model ID", "Software Version Code", "Model Version", "Model Serial Code"};
    for (int k = 0; k < L->n; k++) {
      const pub::F &f = L->f[k];
      for (int q = 0; q < 4; q++) if (!strcmp(f.name, names[q])) {
        for (int c = 0; c < f.len / 8; c++) {
          unsigned char b = pl[f.off / 8 + c];
          bool good = c < (int)want[q].size() ? b == (unsigned char)want[q][c] : (b == 0xff || b == 0x00 || b == ' ');
          if (!good) { C.fail(fieldKey("126996", (std::string(f.name) + " via node").c_str()), "byte %d of '%s' (%zu characters) is 0x%02x on the bus", c, want[q].c_str(), want[q].size(), b); break; }
        }
        C.count("node_product_information_checks");
      }
      if (!strcmp(f.name, "Product Code") && (unsigned)(pl[f.off / 8] | (pl[f.off / 8 + 1] << 8)) != code) C.fail("C15:126996:Product_Code_via_node", "product code");
      if (!strcmp(f.name, "NMEA 2000 Version") && (unsigned)(pl[f.off / 8] | (pl[f.off / 8 + 1] << 8)) != ver) C.fail("C15:126996:Version_via_node", "version");
      if (!strcmp(f.name, "Load Equivalency") && pl[f.off / 8] != le) C.fail("C15:126996:Load_Equivalency_via_node", "load equivalency");
      if (!strcmp(f.name, "Certification Level") && pl[f.off / 8] != cert) C.fail("C15:126996:Certification_Level_via_node", "certification level");
    }
    C.nontrivial("prodinfo/" + std::to_string(str[0].size()) + "/" + std::to_string(str[1].size()));
  }
}

static void exec15(const std::string &line) {
  std::vector<std::string> w = split(line);
  if (!w.empty() && w[0] == "pgnlist") { execPgnList(line); return; }
  if (w.size() == 2 && w[0] == "prodinfo") { execProdInfo(line); return; }
  exec(line);
  if (w.size() >= 2 && w[0] == "set") {
    const lg::Pair *p = pairOf(w[1]); const pub::L *L = p ? layoutFor(*p) : nullptr;
    if (p && L) checkPublished(*p, *L);
    if (p && g_last[p->id].valid) {
      // fields that only exist on one setter path (e.g. the reference-station record of 129029): table named after the path
      std::vector<lg::Val> v; for (auto &c : g_last[p->id].in) v.push_back(c.v);
      const lg::Variant &V = variantForSet(*p, v.data());
      const pub::L *LV = strcmp(V.id, p->id) ? layoutOf(V.id) : nullptr;
      if (LV) checkPublished(*p, *LV);
    }
  }
}

static void runSet(const lg::Pair &p, const std::vector<Cell> &cells) {
  std::string s = std::string("set ") + p.id;
  for (int i = 0; i < p.nf; i++) s += " " + inCode(p, p.f[i], cells[i]);
  exec15(s);
}

int main(int argc, char **argv) {
  if (!getenv("N2K_LAYOUT_REEXEC")) {
    setenv("N2K_LAYOUT_REEXEC", "1", 1);
    setenv("UBSAN_OPTIONS", "print_stacktrace=0:halt_on_error=0", 1);
    execv("/proc/self/exe", argv);
  }
  C.init(argc, argv);
  C.rule = "per listed PGN: base tuple, every special value of every parameter one at a time (zero, one, min, max, negative, "
           "largest representable, NA, every enumerator and bit pattern of packed fields, single bits), all-NA/zero/max "
           "tuples, random tuples; PGN 126464 with lists of 0..70 PGNs";
  if (!C.replay.empty()) { for (auto &l : readLines(C.replay)) exec15(l); C.finish(); return 0; }
  Rng r(C.seed * 0x9E3779B97F4A7C15ULL ^ 0xC15C15ULL);
  int nRandom = C.thorough ? 1500 : 120;
  // EVERY public setter of a listed PGN: the main functions, their overloads and the inline alias wrappers of the headers
  for (int li = 0; li < lg::nPairs; li++) {
    const lg::Pair &p = lg::pairs[li];
    const pub::L *PL = layoutFor(p);
    if (!PL) continue;
    if (p.isWrapper) C.count("wrapper_setters_exercised");
    // plain integer parameters: values over the whole PUBLISHED field (cut to the C type), not only what the setter keeps
    for (int k = 0; k < PL->n; k++) {
      const pub::F &f = PL->f[k];
      if (!f.param || f.resNum != 1 || f.resExp != 0) continue;
      for (int i = 0; i < p.nf; i++)
        if (!strcmp(p.f[i].name, f.param) && (p.f[i].kind == lg::K_UINT || p.f[i].kind == lg::K_SINT) && p.f[i].sW == 0)
          g_widthOverride[&p.f[i]] = std::min(f.len, p.f[i].typeBits ? p.f[i].typeBits : f.len);
    }
    std::vector<Cell> base(p.nf);
    for (int rep = 0; rep < (C.thorough ? 4 : 1); rep++) {
      for (int i = 0; i < p.nf; i++) base[i] = randomCell(p, p.f[i], r, false);
      runSet(p, base);
      for (int i = 0; i < p.nf; i++) {
        if (!p.f[i].inSetter) continue;
        for (Cell &c : specials(p, p.f[i], r)) { std::vector<Cell> t = base; t[i] = c; runSet(p, t); }
      }
    }
    // integer parameters whose published unit is coarser (heartbeat interval: 10 ms per bit): codes over the whole
    // published range, exact multiples and values just below the next multiple (truncation)
    // flags: each one raised alone and each one cleared alone (a flag wired to the wrong bit, or two flags to the same
    // bit, shows only when its neighbours differ)
    {
      std::vector<int> fl; for (int i = 0; i < p.nf; i++) if (p.f[i].kind == lg::K_BOOL && p.f[i].inSetter) fl.push_back(i);
      if (fl.size() >= 2) for (int pol = 0; pol < 2; pol++) for (int one : fl) {
        std::vector<Cell> t = base;
        for (int i : fl) { Cell x; x.v.i = (i == one) ? 1 - pol : pol; x.code = x.v.i; x.cls = "flag"; t[i] = x; }
        runSet(p, t);
      }
    }
    for (int k = 0; k < PL->n; k++) {
      const pub::F &f = PL->f[k];
      if (!f.param || f.resExp != 0 || f.resNum == 1) continue;
      for (int i = 0; i < p.nf; i++) {
        if (strcmp(p.f[i].name, f.param) || (p.f[i].kind != lg::K_UINT && p.f[i].kind != lg::K_SINT)) continue;
        long long top = (long long)pubNA(f.len, f.sgn) - 3;
        std::vector<long long> codes = {1, 2, 3, 255, 256, 1000, top, top - 1, top + 1, top + 2};
        for (int q = 0; q < (C.thorough ? 200 : 30); q++) codes.push_back(r.range(0, top));
        for (long long c : codes) for (long long add : {0LL, (long long)f.resNum - 1}) {
          std::vector<Cell> t = base; Cell x; x.v.i = c * f.resNum + add; x.code = x.v.i; x.cls = "rand"; t[i] = x; runSet(p, t);
        }
      }
    }
    for (const char *cls : {"NA", "zero", "max", "min", "neg", "big"}) {
      std::vector<Cell> t = base; bool any = false;
      for (int i = 0; i < p.nf; i++) for (Cell &c : specials(p, p.f[i], r)) if (!strcmp(c.cls, cls)) { t[i] = c; any = true; break; }
      if (any) runSet(p, t);
    }
    for (int k = 0; k < nRandom; k++) {
      std::vector<Cell> t(p.nf);
      for (int i = 0; i < p.nf; i++) t[i] = randomCell(p, p.f[i], r, r.chance(1, 6));
      runSet(p, t);
    }
    C.count("published_setters_exercised");
  }
  for (int k = 0; k < (C.thorough ? 300 : 40); k++) {
    std::string s = "pgnlist " + std::to_string(r.below(2));
    int n = k < 2 ? k : k == 2 ? 74 : k == 3 ? 73 : (int)r.below(75);      // 0, 1, the maximum (74 fit a fast packet), random
    for (int i = 0; i < n; i++) s += " " + std::to_string(1 + r.below((1UL << 24) - 1));
    exec15(s);
  }
  for (int k = 0; k < (C.thorough ? 120 : 24); k++) exec15("prodinfo " + std::to_string(r.below(1000000)));
  C.finish();
  return 0;
}
