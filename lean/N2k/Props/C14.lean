import N2k.Lemmas.HandlersOps
/-!
# C14 — each received message reaches every matching handler exactly once

Model: `N2k/Model/Handlers.lean` (heap of `tMsgHandler` objects with `PGN`, `pNMEA2000`, `pNext`; per-bus `MsgHandlers`
head pointer; `AttachMsgHandler`/`DetachMsgHandler`/destructor/`RunMessageHandlers` as pointer code with faults).
Specification: `N2k/Spec/Handlers.lean` (`specRun`: per handler only "alive, PGN, bus it was last attached to").

`run` executes a client history; an operation on a dead object (which C++ does not allow) is skipped, every other
operation is executed by the pointer code.  All theorems hold for EVERY history `ops : List Op`, i.e. any number of
handler objects and bus objects, construction with or without the attaching constructor, re-attaching an attached
handler, attaching to another bus while attached, detaching twice, destroying while attached, re-using the address
of a destroyed handler.
-/
namespace N2k.C14
open N2k.Handlers

/-- After ANY history the pointer code has not faulted (no dead object dereferenced, every pointer walk terminated)
and the handler list of every bus object is well formed: following `pNext` from `MsgHandlers` reaches the null
pointer after visiting a duplicate-free list `l` of live objects (so the chain is acyclic) that consists of exactly
the live handlers whose `pNMEA2000` is that bus, in ascending PGN order (handlers for all PGNs, PGN 0, first);
a handler that is attached nowhere has `pNext = 0`. -/
theorem C14_list_invariant (ops : List Op) :
    ∃ w, run World.init ops = some w ∧
      (∀ b, ∃ l, Seg w (w.head b) l none ∧ l.Nodup ∧
        (∀ i, i ∈ l ↔ ∃ o, w.obj i = some o ∧ o.owner = some b) ∧
        l.Pairwise (fun i j => pgnOf w i ≤ pgnOf w j)) ∧
      (∀ i o, w.obj i = some o → o.owner = none → o.next = none) := by
  obtain ⟨w, hr, hi, _⟩ := run_ok ops inv_init
  refine ⟨w, hr, ?_, hi.free⟩
  intro b
  obtain ⟨l, hb⟩ := hi.bus b
  refine ⟨l, hb.chain, hb.nodup, ?_, hb.sorted⟩
  intro i
  rw [hb.mem i]
  constructor
  · exact ownerOf_some
  · rintro ⟨o, ho, hob⟩; rw [ownerOf_eq ho]; exact hob

/-- The members `PGN` and `pNMEA2000` of the live handler objects are, after any history, what the history
specification says: a handler is on the bus it was last attached to (by `AttachMsgHandler` or the attaching
constructor) unless it was detached or destroyed since; the plain callback is the one last set. -/
theorem C14_attached_where_specified (ops : List Op) :
    ∃ w, run World.init ops = some w ∧
      (∀ i, (w.obj i).map (fun o => (o.pgn, o.owner)) = (specRun SpecSt.init ops).h i) ∧
      w.cb = (specRun SpecSt.init ops).cb := by
  obtain ⟨w, hr, _, hv⟩ := run_ok ops inv_init
  rw [view_init] at hv
  refine ⟨w, hr, ?_, ?_⟩
  · intro i; rw [← hv]; rfl
  · rw [← hv]; rfl

/-- `RunMessageHandlers` after any history, for a message with PGN `pgn` on bus `bus`: no fault; the plain callback
runs exactly once iff one is set; `HandleMsg` runs for a duplicate-free list of handlers, and a handler is in that
list iff the history specification says it is alive, attached to `bus` and registered for PGN 0 or for `pgn`
(each matching handler exactly once, no other handler, no handler of the other bus objects). -/
theorem C14_dispatch_exact (ops : List Op) (bus : BusId) (pgn : Nat) :
    ∃ w l, run World.init ops = some w ∧
      dispatch w bus pgn = some (if (specRun SpecSt.init ops).cb bus then 1 else 0, l) ∧
      l.Nodup ∧ ∀ i, i ∈ l ↔ (specRun SpecSt.init ops).matching bus pgn i := by
  obtain ⟨w, hr, hi, hv⟩ := run_ok ops inv_init
  rw [view_init] at hv
  obtain ⟨l, hd, hn, hm⟩ := dispatch_ok hi bus pgn
  refine ⟨w, l, hr, ?_, hn, ?_⟩
  · rw [hd, ← hv]; rfl
  · intro i; rw [hm i, hv]

/-- Call site in `ParseMessages` (PARTIAL: which frames complete a message is decided by `SetN2kCANBufMsg` /
`TestHandleTPMessage`, the reassembly code of C02/C10, which is not modelled here; its outcome `RxOutcome` is an input.
The correspondence harness drives the real receive path instead).  What is proved: a frame that completes no message
— in particular a lone TP.CM (60416) or TP.DT (60160) frame — runs no handler and no callback; a completed message of
ANY PGN, whether or not the library consumes it itself (ISO request, address claim, group function, TP payload), is
dispatched exactly as `C14_dispatch_exact` says. -/
theorem C14_what_is_dispatched_partial (ops : List Op) (bus : BusId) :
    ∃ w, run World.init ops = some w ∧
      onFrame w bus .notReady = some (0, []) ∧
      onFrame w bus (loneFrame 60416) = some (0, []) ∧ onFrame w bus (loneFrame 60160) = some (0, []) ∧
      ∀ pgn, ∃ l, onFrame w bus (.ready pgn) = some (if (specRun SpecSt.init ops).cb bus then 1 else 0, l) ∧
        l.Nodup ∧ ∀ i, i ∈ l ↔ (specRun SpecSt.init ops).matching bus pgn i := by
  obtain ⟨w, hr, hi, hv⟩ := run_ok ops inv_init
  rw [view_init] at hv
  refine ⟨w, hr, rfl, rfl, rfl, ?_⟩
  intro pgn
  obtain ⟨l, hd, hn, hm⟩ := dispatch_ok hi bus pgn
  refine ⟨l, ?_, hn, ?_⟩
  · show dispatch w bus pgn = _
    rw [hd, ← hv]; rfl
  · intro i; rw [hm i, hv]

/-! Non-vacuity: the theorems have no hypotheses; the examples show the model doing what the statements talk about. -/

/-- handlers 0 (all PGNs), 1 and 2 (PGN 5), 3 (PGN 9) attached to bus 0 in an awkward order, 1 then moved to bus 1,
3 destroyed while attached, its address re-used for a PGN-5 handler constructed onto bus 0 -/
def demoOps : List Op :=
  [.new 0 0 none, .new 1 5 none, .new 2 5 none, .new 3 9 (some 0), .attach 2 0, .attach 1 0, .attach 0 0,
   .attach 0 0, .attach 1 1, .destroy 3, .new 3 5 (some 0), .cb 0 true, .detach 2, .attach 2 0]

example : (run World.init demoOps).bind (fun w => dispatch w 0 5) = some (1, [0, 2, 3]) := by decide
example : (run World.init demoOps).bind (fun w => dispatch w 1 5) = some (0, [1]) := by decide
example : (run World.init demoOps).bind (fun w => dispatch w 0 9) = some (1, [0]) := by decide
example : (specRun SpecSt.init demoOps).matching 0 5 2 := ⟨5, by decide, Or.inr rfl⟩
example : ¬ (specRun SpecSt.init demoOps).matching 0 5 1 := by
  rintro ⟨p, h, _⟩
  have : (specRun SpecSt.init demoOps).h 1 = some (5, some 1) := by decide
  rw [this] at h; cases h

end N2k.C14
