#!/usr/bin/env python3
"""Regenerate seeded/README.md from seeded/*/meta.json (which checks catch which seeded change)."""
import json, glob, os, re
VERIF = os.path.dirname(os.path.dirname(os.path.abspath(__file__)))
rows = []
for d in sorted(glob.glob(os.path.join(VERIF, 'seeded', 'C*_*'))):
    m = json.load(open(os.path.join(d, 'meta.json')))
    patch = open(os.path.join(d, 'patch.diff')).read()
    files = sorted(set(re.findall(r'^\+\+\+ b/(\S+)', patch, re.M)))
    changed = sum(1 for l in patch.split('\n') if (l.startswith('+') or l.startswith('-')) and not l.startswith('+++') and not l.startswith('---'))
    caught = m.get('caught_by_now', m.get('caught_by', []))
    first = m.get('caught_by', [])
    note = m.get('strengthened', '')
    rows.append((os.path.basename(d), ', '.join(os.path.basename(f) for f in files), changed,
                 'yes' if m.get('demo_on_original_exit') == 0 and m.get('demo_with_change_exit') not in (0, -1) and m.get('repo_tests_pass') else 'NO',
                 ', '.join(first) or '—', ', '.join(caught) or '—',
                 {True: 'yes', False: 'no (broken obligation / correspondence only)', None: '?'}[m.get('caught_with_concrete_input') if caught else None] if caught else '—', note))
out = ['# Seeded changes', '',
       'Each directory holds `patch.diff`, the demonstration (`demo.cpp`, `build.sh`), `meta.json` (what it needs to manifest = the author\'s notes,',
       'what was run) and, when a check caught it, `example_replay.json`. The changes were written by sub-agents that saw only the property text and a',
       'scratch worktree of the repository. "confirmed" = the demonstration exits 0 on the original and non-zero with the change, and the',
       'repository\'s own tests pass with the change. None of these changes is ever applied to /repo itself (`tools/mutant_eval.py` uses a scratch copy).', '',
       '| change | files | ±lines | confirmed | caught by (first run, quick tier) | caught by (now) | concrete failing input | what was strengthened |', '|---|---|---|---|---|---|---|---|']
for r in rows:
    out.append('| %s | %s | %d | %s | %s | %s | %s | %s |' % r)
open(os.path.join(VERIF, 'seeded', 'README.md'), 'w').write('\n'.join(out) + '\n')
print(len(rows), 'rows;', sum(1 for r in rows if r[5] == '—'), 'not caught now;', sum(1 for r in rows if r[4] == '—'), 'missed at first run;', sum(1 for r in rows if r[6] == 'yes'), 'with concrete input')
