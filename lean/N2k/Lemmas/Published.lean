import N2k.Spec.PublishedLayouts
import N2k.Lemmas.Layout
/-! `encode` places the bits of a parameter where a published field that agrees with the layout expects them. -/
namespace N2k.Spec
open N2k.Layout

theorem take_drop_getD (l : List Bool) (off len i : Nat) :
    ((l.drop off).take len).getD i false = if i < len then l.getD (off + i) false else false := by
  by_cases h : i < len
  · simp [List.getD_eq_getElem?_getD, h, List.getElem?_drop]
  · simp [List.getD_eq_getElem?_getD, List.getElem?_take, h]

/-- the payload bits `[off, off+len)` hold the parameter's code (its low `len` bits) -/
theorem fieldValue_eq (P : Pair) (f : PubField) (o : Nat) (params : Nat → Nat)
    (h : bitsAgree P f o = true) (hlt : params o < 2 ^ pubW P f o) :
    fieldValue (encode P.setterBits params) f.off f.len = params o % 2 ^ f.len := by
  simp only [bitsAgree, List.all_eq_true, List.mem_range, Bool.or_eq_true, Bool.and_eq_true, beq_iff_eq,
    decide_eq_true_eq] at h
  apply Nat.eq_of_testBit_eq
  intro i
  rw [fieldValue, ofBits_testBit, take_drop_getD, Nat.testBit_mod_two_pow]
  by_cases hi : i < f.len
  · simp only [hi, ↓reduceIte, decide_true, Bool.true_and]
    have hb := h i hi
    rw [srcAt_eq] at hb
    rcases hb with hb | ⟨hW, hb⟩
    · simp [encode, Pair.setterBits, List.getD_eq_getElem?_getD, List.getElem?_map, hb, srcVal]
    · simp only [encode, Pair.setterBits, List.getD_eq_getElem?_getD, List.getElem?_map, hb, Option.map_some,
        Option.getD_some, srcVal]
      exact (testBit_high hlt hW).symm
  · simp [hi]

/-- a field that agrees with a constant holds that constant (its low `len` bits), whatever the parameters -/
theorem constValue_eq (P : Pair) (f : PubField) (v : Nat) (params : Nat → Nat) (h : constAgree P f v = true) :
    fieldValue (encode P.setterBits params) f.off f.len = v % 2 ^ f.len := by
  simp only [constAgree, List.all_eq_true, List.mem_range, beq_iff_eq] at h
  apply Nat.eq_of_testBit_eq
  intro i
  rw [fieldValue, ofBits_testBit, take_drop_getD, Nat.testBit_mod_two_pow]
  by_cases hi : i < f.len
  · simp only [hi, ↓reduceIte, decide_true, Bool.true_and]
    have hb := h i hi
    rw [srcAt_eq] at hb
    simp only [encode, Pair.setterBits, List.getD_eq_getElem?_getD, List.getElem?_map, hb, Option.map_some,
      Option.getD_some]
    cases v.testBit i <;> rfl
  · simp [hi]

end N2k.Spec
