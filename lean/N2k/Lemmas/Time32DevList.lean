import N2k.Model.DeviceList
import N2k.Lemmas.Time32
/-!
# Clock-origin shift of the device list's request pacing (C13)

`tN2kDeviceList` paces its ISO requests for product information, configuration information and PGN lists with
`ReadyForRequest…` / `Set…Requested` (`Model/DeviceList.lean`: `ready`, `markRequested`, `reqLoop`, `handleOther`).
Since /repo f104fb3 a request stamp is read only when its counter says a request has been made, so every stamp that is
read was taken from the clock. `Device.shift k` moves exactly those stamps (creation time, last message time, and a
request stamp iff its counter is non-zero) by `k` modulo 2^32; the constant 0 of a never-used stamp stays 0, as it does
in a real run from another origin. The pacing machine commutes with the shift for EVERY `k` (no sentinel here:
the device list uses `N2kHasElapsed` only).
-/
namespace N2k.DeviceList
open N2k.Time

def shiftStamp (k n v : Nat) : Nat := if n = 0 then v else (v + k) % M32

def Device.shift (k : Nat) (d : Device) : Device :=
  { d with createTime := (d.createTime + k) % M32,
           lastMessageTime := (d.lastMessageTime + k) % M32,
           prodIRequested := shiftStamp k d.nProdIRequested d.prodIRequested,
           confIRequested := shiftStamp k d.nConfIRequested d.confIRequested,
           pgnsRequested := shiftStamp k d.nPGNsRequested d.pgnsRequested }

def Env.shift (k : Nat) (e : Env) : Env := { e with now := e.now + k }

def State.shift (k : Nat) (s : State) : State :=
  { s with heap := fun j => (s.heap j).map (Device.shift k) }

theorem hasElapsed_shift32 (s el now k : Nat) :
    hasElapsed ((s + k) % M32) el (millis32 (now + k)) = hasElapsed s el (millis32 now) := by
  unfold hasElapsed sub32 millis32 M32 INT32_MAX; simp only [decide_eq_decide]; omega

theorem should_shift (k : Nat) (kd : Kind) (d : Device) : should kd (d.shift k) = should kd d := by
  cases kd <;> rfl

theorem nRequested_shift (k : Nat) (kd : Kind) (d : Device) : nRequested kd (d.shift k) = nRequested kd d := by
  cases kd <;> rfl

theorem lastRequested_shift (k : Nat) (kd : Kind) (d : Device) :
    lastRequested kd (d.shift k) = shiftStamp k (nRequested kd d) (lastRequested kd d) := by
  cases kd <;> rfl

/-- `ReadyForRequest…` gives the same answer from every clock origin -/
theorem ready_shift (k : Nat) (e : Env) (kd : Kind) (d : Device) :
    ready (e.shift k) kd (d.shift k) = ready e kd d := by
  unfold ready
  rw [should_shift, nRequested_shift, lastRequested_shift]
  have e1 : (e.shift k).now = e.now + k := rfl
  have e2 : (d.shift k).createTime = (d.createTime + k) % M32 := rfl
  rw [e1, e2, hasElapsed_shift32]
  by_cases hn : nRequested kd d = 0
  · simp [hn]
  · have : shiftStamp k (nRequested kd d) (lastRequested kd d) = (lastRequested kd d + k) % M32 := by
      unfold shiftStamp; rw [if_neg hn]
    rw [this, hasElapsed_shift32]

theorem millis32_shift (now k : Nat) : millis32 (now + k) = (millis32 now + k) % M32 := by
  unfold millis32 M32; omega

/-- `Set…Requested()` stores the shifted stamp -/
theorem markRequested_shift (k : Nat) (e : Env) (kd : Kind) (d : Device) :
    markRequested (e.shift k) kd (d.shift k) = (markRequested e kd d).shift k := by
  have e1 : (e.shift k).now = e.now + k := rfl
  cases kd <;>
  · simp only [markRequested, Device.shift, e1, millis32_shift, shiftStamp, Nat.succ_ne_zero, Nat.add_one_ne_zero,
      ↓reduceIte]
    rfl

theorem State.shift_deref (k : Nat) (s : State) (id : Id) :
    (s.shift k).deref id = (s.deref id).map (Device.shift k) := by
  unfold State.deref State.shift
  simp only
  cases s.heap id <;> rfl

theorem State.shift_put (k : Nat) (s : State) (id : Id) (d : Device) :
    (s.shift k).put id (d.shift k) = (s.put id d).shift k := by
  unfold State.put State.shift
  simp only
  congr 1
  funext j
  by_cases h : j = id
  · simp [h]
  · simp [h]

theorem State.shift_emit (k : Nat) (s : State) (dest pgn : Nat) :
    (s.shift k).emit dest pgn = (s.emit dest pgn).shift k := rfl

/-- the result of a pacing step from the shifted origin: shifted state, same `return` flag -/
def shiftRes (k : Nat) (r : M (State × Bool)) : M (State × Bool) := r.map fun p => (p.1.shift k, p.2)

/-- one of the three request loops commutes with the shift -/
theorem reqLoop_shift (k : Nat) (e : Env) (kd : Kind) (n : Nat) :
    ∀ (i : Nat) (s : State), reqLoop (e.shift k) kd n i (s.shift k) = shiftRes k (reqLoop e kd n i s) := by
  induction n with
  | zero => intro i s; rfl
  | succ n ih =>
    intro i s
    unfold reqLoop
    have es : (s.shift k).sources i = s.sources i := rfl
    rw [es]
    cases hs : s.sources i with
    | none => simp only; exact ih (i + 1) s
    | some id =>
      simp only
      rw [State.shift_deref]
      cases hd : s.deref id with
      | error x => rfl
      | ok d =>
        simp only [Except.map]
        rw [ready_shift]
        have ec : (e.shift k).canSend = e.canSend := rfl
        have esrc : (d.shift k).source = d.source := rfl
        rw [ec, esrc, should_shift]
        by_cases hr : ready e kd d = true
        · simp only [if_pos hr]
          by_cases hc : e.canSend = true
          · simp only [if_pos hc]
            rw [markRequested_shift, State.shift_emit, State.shift_put]
            rfl
          · simp only [if_neg hc]; exact ih (i + 1) s
        · simp only [if_neg hr]
          exact ih (i + 1) { s with hasPending := s.hasPending || should kd d }

theorem named_shift (k : Nat) (s : State) (id : Id) (d : Device) (a b n : Nat) :
    ({ ((s.shift k).emit a b).put id ({ d.shift k with nNameRequested := n }) with hasPending := true } : State) =
      State.shift k { ((s.emit a b).put id { d with nNameRequested := n }) with hasPending := true } := by
  have : ({ d.shift k with nNameRequested := n } : Device) = Device.shift k { d with nNameRequested := n } := rfl
  rw [this, State.shift_emit, State.shift_put]
  rfl

theorem reqName_shift (k : Nat) (e : Env) (s : State) (src : Nat) :
    reqName (e.shift k) (s.shift k) src = (reqName e s src).map (State.shift k) := by
  unfold reqName
  have es : (s.shift k).sources src = s.sources src := rfl
  rw [es]
  cases hs : s.sources src with
  | none => rfl
  | some id =>
    simp only
    rw [State.shift_deref]
    cases hd : s.deref id with
    | error x => rfl
    | ok d =>
      simp only [Except.map]
      have e1 : (d.shift k).name = d.name := rfl
      have e2 : (d.shift k).nNameRequested = d.nNameRequested := rfl
      rw [e1, e2]
      by_cases hc : d.name = 0 ∧ d.nNameRequested < 20
      · simp only [if_pos hc]
        unfold request
        have ec : (e.shift k).canSend = e.canSend := rfl
        rw [ec]
        cases hcs : e.canSend
        · rfl
        · exact congrArg Except.ok (named_shift k s id d src pgnClaim (d.nNameRequested + 1))
      · simp only [if_neg hc]

/-- `HandleOther`, the complete request pacing (name request, then product information, configuration information and
PGN lists, each for all devices), commutes with the shift of the clock origin by any `k` -/
theorem handleOther_shift (k : Nat) (e : Env) (s : State) (m : Msg) :
    handleOther (e.shift k) (s.shift k) m = (handleOther e s m).map (State.shift k) := by
  unfold handleOther
  by_cases h1 : m.source ≥ MaxBusDevices
  · simp only [if_pos h1]; rfl
  · simp only [if_neg h1]
    have ep : (s.shift k).hasPending = s.hasPending := rfl
    rw [ep]
    by_cases h2 : (!s.hasPending) = true
    · simp only [if_pos h2]; rfl
    · simp only [if_neg h2]
      have e0 : ({ s.shift k with hasPending := false } : State) = State.shift k { s with hasPending := false } := rfl
      rw [e0, reqName_shift]
      cases reqName e { s with hasPending := false } m.source with
      | error x => rfl
      | ok s1 =>
        simp only [Except.map]
        have em : (s1.shift k).maxDevices = s1.maxDevices := rfl
        rw [em, reqLoop_shift]
        cases reqLoop e .prod s1.maxDevices 0 s1 with
        | error x => rfl
        | ok r1 =>
          simp only [shiftRes, Except.map]
          have eh : (r1.1.shift k).hasPending = r1.1.hasPending := rfl
          have em1 : (r1.1.shift k).maxDevices = r1.1.maxDevices := rfl
          rw [eh, em1]
          by_cases h3 : (r1.2 || r1.1.hasPending) = true
          · simp only [if_pos h3]
          · simp only [if_neg h3]
            rw [reqLoop_shift]
            cases reqLoop e .conf r1.1.maxDevices 0 r1.1 with
            | error x => rfl
            | ok r2 =>
              simp only [shiftRes, Except.map]
              have eh2 : (r2.1.shift k).hasPending = r2.1.hasPending := rfl
              have em2 : (r2.1.shift k).maxDevices = r2.1.maxDevices := rfl
              rw [eh2, em2]
              by_cases h4 : (r2.2 || r2.1.hasPending) = true
              · simp only [if_pos h4]
              · simp only [if_neg h4]
                rw [reqLoop_shift]
                cases reqLoop e .pgns r2.1.maxDevices 0 r2.1 with
                | error x => rfl
                | ok r3 => rfl

/-- the requests put on the bus are not touched by the shift -/
theorem State.shift_out (k : Nat) (s : State) : (s.shift k).out = s.out := rfl

end N2k.DeviceList
