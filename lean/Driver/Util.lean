/-! Line-protocol plumbing shared by all driver engines: one op per input line, one output line per op. -/
namespace Driver

def words (line : String) : List String :=
  (line.trimAscii.toString.splitOn " ").filter (· ≠ "")

def nat? (s : String) : Option Nat := s.toNat?

def hexDigit (c : Char) : Option Nat :=
  if '0' ≤ c ∧ c ≤ '9' then some (c.toNat - '0'.toNat)
  else if 'a' ≤ c ∧ c ≤ 'f' then some (c.toNat - 'a'.toNat + 10)
  else if 'A' ≤ c ∧ c ≤ 'F' then some (c.toNat - 'A'.toNat + 10)
  else none

/-- "0a1b" → [10, 27]; "-" → [] ; none on malformed input -/
def hexBytes? (s : String) : Option (List Nat) :=
  if s = "-" then some [] else
  let rec go : List Char → List Nat → Option (List Nat)
    | [], acc => some acc.reverse
    | [_], _ => none
    | a :: b :: t, acc => match hexDigit a, hexDigit b with
      | some x, some y => go t ((x * 16 + y) :: acc)
      | _, _ => none
  go s.toList []

def hexNib (n : Nat) : Char := if n < 10 then Char.ofNat (48 + n) else Char.ofNat (87 + n)

def hexOfBytes (l : List Nat) : String :=
  if l.isEmpty then "-" else
  String.ofList (l.flatMap fun b => [hexNib ((b / 16) % 16), hexNib (b % 16)])

def boolStr (b : Bool) : String := if b then "1" else "0"

/-- run `step` over stdin lines; blank lines and lines starting with `#` produce no output -/
partial def loop {σ : Type} (step : σ → List String → σ × String) (s : σ) : IO Unit := do
  let stdin ← IO.getStdin
  let stdout ← IO.getStdout
  let rec go (s : σ) : IO Unit := do
    let line ← stdin.getLine
    if line.isEmpty then return ()
    let w := words line
    match w with
    | [] => go s
    | h :: _ =>
      if h.startsWith "#" then go s else
      let (s', out) := step s w
      stdout.putStrLn out
      go s'
  go s
  stdout.flush

end Driver
