import N2k.Model.Heartbeat
/-!
# The roll counter behind `N2kMillis64()` on 32-bit builds (C13)
-/
namespace N2k.Heartbeat
open N2k.Time

/-- the static state has followed the true (unbounded) millisecond clock up to time `t`, `e` epochs ahead
(`e` counts spurious or historical rolls; it is constant from then on) -/
def Roll.Tracks (r : Roll) (t e : Nat) : Prop :=
  r.lastRead = t % M32 ∧ r.rollCount = t / M32 + e

/-- one sample at true time `t'`, at most 2^32-1 ms after the previous one: the value returned is the true time plus
the constant `e·2^32`, and the state keeps tracking -/
theorem Roll.read_exact {r : Roll} {t e t' : Nat} (h : r.Tracks t e) (h1 : t ≤ t') (h2 : t' < t + M32)
    (h3 : t' / M32 + e < M32) :
    (r.read (t' % M32)).2 = t' + e * M32 ∧ (r.read (t' % M32)).1.Tracks t' e := by
  obtain ⟨hl, hc⟩ := h
  unfold Roll.read Roll.Tracks
  simp only
  have key : (if r.lastRead > t' % M32 then (r.rollCount + 1) % M32 else r.rollCount) = t' / M32 + e := by
    rw [hl, hc]
    unfold M32 at *
    by_cases hw : t % 4294967296 > t' % 4294967296
    · rw [if_pos hw]; omega
    · rw [if_neg hw]; omega
  rw [key]
  refine ⟨?_, trivial, rfl⟩
  have := Nat.div_add_mod t' M32
  rw [Nat.add_mul]
  have e1 : t' / M32 * M32 = M32 * (t' / M32) := Nat.mul_comm _ _
  omega

/-- samples at the true times `ts`, in order -/
def Roll.readAll : Roll → List Nat → List Nat
  | _, [] => []
  | r, t :: ts => (r.read (t % M32)).2 :: Roll.readAll (r.read (t % M32)).1 ts

/-- consecutive samples are less than 2^32 ms apart and the clock does not go backwards -/
def Sampled : Nat → List Nat → Prop
  | _, [] => True
  | t, t' :: ts => t ≤ t' ∧ t' < t + M32 ∧ Sampled t' ts

theorem Roll.readAll_exact (ts : List Nat) : ∀ (r : Roll) (t e : Nat), r.Tracks t e → Sampled t ts →
    (∀ x ∈ ts, x / M32 + e < M32) → r.readAll ts = ts.map (· + e * M32) := by
  induction ts with
  | nil => intro r t e _ _ _; rfl
  | cons t' ts ih =>
    intro r t e hr hs hb
    obtain ⟨h1, h2, h3⟩ := hs
    obtain ⟨ev, et⟩ := Roll.read_exact hr h1 h2 (hb t' (by simp))
    simp only [Roll.readAll, List.map_cons, ev]
    rw [ih _ t' e et h3 (fun x hx => hb x (by simp [hx]))]

end N2k.Heartbeat
