import N2k.Lemmas.TPSafe
/-! C10 / C07 receiver safety, part 2: everything that is not frame reception leaves the receive slots and the handler log alone. -/
namespace N2k.TP
open N2k.Send N2k.Time N2k.Spec

/-- the receive slots and the handler log are untouched -/
def SameRx (n n' : Node) : Prop := n'.slots = n.slots ∧ n'.out = n.out

theorem SameRx.refl (n : Node) : SameRx n n := ⟨rfl, rfl⟩
theorem SameRx.trans {a b c : Node} (h1 : SameRx a b) (h2 : SameRx b c) : SameRx a c := ⟨h2.1.trans h1.1, h2.2.trans h1.2⟩
theorem SameRx.ite {n a b : Node} (c : Prop) [Decidable c] (h1 : SameRx n a) (h2 : SameRx n b) : SameRx n (if c then a else b) := by
  split <;> assumption

theorem same_setTp (n : Node) (i : Nat) (t : TpDev) : SameRx n (n.setTp i t) := ⟨rfl, rfl⟩
theorem same_setInfo (n : Node) (i : Nat) (x : InfoDev) : SameRx n (n.setInfo i x) := ⟨rfl, rfl⟩
theorem same_emit (n : Node) (m : Msg) (i : Nat) : SameRx n (emit n m i).1 := ⟨rfl, rfl⟩
theorem same_endSendTP (n : Node) (i : Nat) : SameRx n (endSendTP n i) := ⟨rfl, rfl⟩
theorem same_setTimer (n : Node) (i ms : Nat) : SameRx n (setTimer n i ms) := ⟨rfl, rfl⟩
theorem same_updateHasPending (n : Node) (i : Nat) : SameRx n (updateHasPending n i) := ⟨rfl, rfl⟩
theorem same_sendTPDT (n : Node) (i : Nat) : SameRx n (sendTPDT n i).1 := ⟨rfl, rfl⟩

theorem same_sendCTS (n : Node) (pgn dest i np next : Nat) : SameRx n (sendCTS n pgn dest i np next) := by
  unfold sendCTS; exact SameRx.ite _ (SameRx.refl n) (same_emit n _ i)
theorem same_sendEndAck (n : Node) (pgn dest i nb np : Nat) : SameRx n (sendEndAck n pgn dest i nb np) := by
  unfold sendEndAck; exact SameRx.ite _ (SameRx.refl n) (same_emit n _ i)
theorem same_sendAbort (n : Node) (pgn dest i code : Nat) : SameRx n (sendAbort n pgn dest i code) := by
  unfold sendAbort; exact SameRx.ite _ (SameRx.refl n) (same_emit n _ i)

theorem same_ctsLoop (i : Nat) : ∀ (k : Nat) (n : Node), SameRx n (ctsLoop k n i).1
  | 0, n => SameRx.refl n
  | k+1, n => by
    unfold ctsLoop
    by_cases h : hasAllSent n i = true
    · rw [if_pos h]; exact SameRx.refl n
    · rw [if_neg h]
      by_cases h2 : (sendTPDT n i).2 = true
      · simp only [h2, ↓reduceIte]; exact (same_sendTPDT n i).trans (same_ctsLoop i k _)
      · simp only [h2]; exact same_sendTPDT n i

theorem same_handleCTS (n : Node) (i src tpgn b1 b2 : Nat) : SameRx n (handleCTS n i src tpgn b1 b2) := by
  unfold handleCTS
  simp only []
  refine SameRx.ite _ (SameRx.refl n) (SameRx.ite _ (SameRx.refl n) (SameRx.ite _ ?_ (same_setTimer n i 100)))
  refine SameRx.ite _ (same_endSendTP n i) ?_
  refine SameRx.trans ?_ (same_setTimer _ i 100)
  exact SameRx.ite _ (same_ctsLoop i b1 n) ((same_ctsLoop i b1 n).trans (same_endSendTP _ i))

theorem same_handleEnd (n : Node) (i src tpgn : Nat) : SameRx n (handleEnd n i src tpgn) := by
  unfold handleEnd
  simp only []
  exact SameRx.ite _ (SameRx.refl n) (SameRx.ite _ (SameRx.refl n) (same_endSendTP n i))

theorem same_sendProductInformation (n : Node) (i : Nat) : SameRx n (sendProductInformation n i) := by
  unfold sendProductInformation
  simp only []
  refine SameRx.ite _ ?_ ?_
  · exact (same_emit n _ i).trans ((same_setInfo _ i _).trans (same_updateHasPending _ i))
  · exact (same_emit n _ i).trans ((same_setInfo _ i _).trans (same_setTp _ i _))

theorem same_sendConfigurationInformation (n : Node) (i : Nat) (c : Msg) : SameRx n (sendConfigurationInformation n i c) := by
  unfold sendConfigurationInformation
  simp only []
  refine SameRx.ite _ ?_ ?_
  · exact (same_emit n _ i).trans ((same_setInfo _ i _).trans (same_updateHasPending _ i))
  · exact (same_emit n _ i).trans ((same_setInfo _ i _).trans (same_setTp _ i _))

theorem same_respondIsoRequest (n : Node) (addressed : Bool) (requester rp i : Nat) :
    SameRx n (respondIsoRequest n addressed requester rp i) := by
  unfold respondIsoRequest
  cases hd : n.s.devs[i]? with
  | none => exact SameRx.refl n
  | some d =>
    simp only []
    have h0 : SameRx n { n with s := { n.s with devs := updDev n.s.devs i (isAddressClaimStarted n.s.flavor n.s.now d).1 } } := ⟨rfl, rfl⟩
    refine SameRx.ite _ h0 (SameRx.ite _ (h0.trans (same_emit _ _ i)) (SameRx.ite _ h0 (SameRx.ite _ (h0.trans (same_sendProductInformation _ i)) ?_)))
    refine SameRx.ite _ ?_ (SameRx.ite _ (h0.trans (same_emit _ _ i)) h0)
    cases hc : n.conf with
    | none => exact h0
    | some c => exact h0.trans (same_sendConfigurationInformation _ i c)

theorem same_foldl {α : Type} (f : Node → α → Node) (hf : ∀ n a, SameRx n (f n a)) : ∀ (l : List α) (n : Node), SameRx n (l.foldl f n)
  | [], n => SameRx.refl n
  | a :: t, n => (hf n a).trans (same_foldl f hf t _)

theorem same_handleIsoRequest (n : Node) (d : Delivery) : SameRx n (handleIsoRequest n d) := by
  unfold handleIsoRequest
  simp only []
  refine SameRx.ite _ (SameRx.refl n) (SameRx.ite _ ?_ (same_respondIsoRequest n _ _ _ _))
  exact same_foldl _ (fun m i => same_respondIsoRequest m _ _ _ i) _ n

theorem same_systemMessage (n : Node) (a : Slot) : SameRx n (systemMessage n a) := by
  unfold systemMessage
  exact SameRx.ite _ (same_handleIsoRequest n _) (SameRx.refl n)

theorem same_pendingTP (n : Node) (i : Nat) : SameRx n (pendingTP n i) := by
  unfold pendingTP
  simp only []
  refine SameRx.ite _ (SameRx.ite _ ?_ (same_endSendTP n i)) (SameRx.refl n)
  have h1 : SameRx n (setTimer (sendTPDT n i).1 i n.bamGap) := (same_sendTPDT n i).trans (same_setTimer _ i n.bamGap)
  exact SameRx.ite _ (h1.trans (same_endSendTP _ i)) h1

theorem same_pendingDev (n : Node) (i : Nat) : SameRx n (pendingDev n i) := by
  unfold pendingDev
  simp only []
  have h1 : SameRx n (if due (pendingTP n i) ((pendingTP n i).info i).pendProd = true then sendProductInformation (pendingTP n i) i else pendingTP n i) :=
    SameRx.ite _ ((same_pendingTP n i).trans (same_sendProductInformation _ i)) (same_pendingTP n i)
  generalize (if due (pendingTP n i) ((pendingTP n i).info i).pendProd = true then sendProductInformation (pendingTP n i) i else pendingTP n i) = n2 at h1 ⊢
  cases hc : n2.conf with
  | none => exact h1
  | some c => exact SameRx.ite _ (h1.trans (same_sendConfigurationInformation n2 i c)) h1

theorem same_pendingAll (n : Node) : SameRx n (pendingAll n) := by
  unfold pendingAll
  exact same_foldl _ (fun m i => SameRx.ite _ (same_pendingDev m i) (SameRx.refl m)) _ n

theorem same_flush (n : Node) : SameRx n (flush n) := ⟨rfl, rfl⟩
theorem same_claimTick (n : Node) : SameRx n (claimTick n) := ⟨rfl, rfl⟩

theorem same_startSendTP (n : Node) (m : Msg) (i : Nat) : SameRx n (startSendTP n m i).1 := by
  unfold startSendTP
  by_cases h1 : i ≥ n.s.devs.length
  · rw [if_pos h1]; exact SameRx.refl n
  rw [if_neg h1]
  by_cases h2 : (n.tp i).pend.pgn ≠ 0
  · rw [if_pos h2]; exact SameRx.refl n
  rw [if_neg h2]
  simp only []
  have hb : ∀ n1 : Node, SameRx n1 (sendBAM n1 i).1 := fun n1 => by
    unfold sendBAM; split
    · exact SameRx.refl n1
    · exact same_emit n1 _ i
  have hr : ∀ n1 : Node, SameRx n1 (sendRTS n1 i).1 := fun n1 => by
    unfold sendRTS; split
    · exact SameRx.refl n1
    · exact same_emit n1 _ i
  have h0 := same_setTp n i { pend := m, nextSeq := 0, timer := Sched.fromNow n.s.flavor n.s.now 50, hasPending := true }
  by_cases hd : m.dst = 0xff
  · simp only [hd, ↓reduceIte]
    split
    · exact h0.trans (hb _)
    · exact (h0.trans (hb _)).trans (same_endSendTP _ i)
  · simp only [hd, ↓reduceIte]
    split
    · exact h0.trans (hr _)
    · exact (h0.trans (hr _)).trans (same_endSendTP _ i)

theorem same_sendMsgTP (n : Node) (m : Msg) (dev : Option Nat) : SameRx n (sendMsgTP n m dev).1 := by
  unfold sendMsgTP
  cases hg : gate n.s m dev with
  | refuse s' => exact ⟨rfl, rfl⟩
  | pass s1 d1 canId =>
    simp only []
    split
    · exact SameRx.trans ⟨rfl, rfl⟩ (same_startSendTP { n with s := s1 } _ _)
    · exact ⟨rfl, rfl⟩

theorem same_moveTo (n : Node) (d a : Nat) : SameRx n (moveTo n d a) := by
  unfold moveTo
  cases n.s.devs[d]? with
  | none => exact SameRx.refl n
  | some dv => exact ⟨rfl, rfl⟩

end N2k.TP
