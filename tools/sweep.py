#!/usr/bin/env python3
"""sweep.py <Cxx>... : run the checks on the unchanged /repo for many seeds in both tiers; a VIOLATION here is a false alarm
(or a genuine defect not yet listed). Replays of failing runs are kept under /tmp/sweep/<Cxx>_<seed>_<tier>/."""
import os, sys, subprocess, shutil
VERIF = os.path.dirname(os.path.dirname(os.path.abspath(__file__)))
Q = [2, 3, 5, 7, 11, 13, 1017, 1034, 1051, 1068, 1085, 1102, 2017, 2034]
T = [2, 7, 1034, 1068, 1102]
bad = 0
for pid in sys.argv[1:]:
    for tier, seeds in (('quick', Q), ('thorough', T)):
        for s in seeds:
            r = subprocess.run([sys.executable, os.path.join(VERIF, 'tools', 'check.py'), pid, '--tier', tier], cwd=VERIF,
                               env=dict(os.environ, VERIF_SEED=str(s)), stdout=subprocess.PIPE, stderr=subprocess.STDOUT, text=True)
            viol = [l for l in r.stdout.split('\n') if l.startswith('VIOLATION')]
            if r.returncode != 0 or viol:
                bad += 1
                d = '/tmp/sweep/%s_%d_%s' % (pid, s, tier)
                shutil.rmtree(d, ignore_errors=True)
                if os.path.isdir(os.path.join(VERIF, 'replays', pid)):
                    shutil.copytree(os.path.join(VERIF, 'replays', pid), d)
                print('ALARM %s seed=%d tier=%s: %s' % (pid, s, tier, ' | '.join(viol)[:200]), flush=True)
            shutil.rmtree(os.path.join(VERIF, 'replays', pid), ignore_errors=True)
    print('%s swept (%d quick + %d thorough runs)' % (pid, len(Q), len(T)), flush=True)
print('alarms:', bad)
