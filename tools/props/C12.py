"""C12 - heartbeats are sent on schedule with a correct interval field and sequence."""
SPEC = {
    'engine': 'hb', 'harness': 'hb.cpp',
    'repo_srcs': ['N2kMsg.cpp', 'N2kStream.cpp', 'N2kMessages.cpp', 'N2kTimer.cpp', 'N2kGroupFunction.cpp', 'N2kGroupFunctionDefaultHandlers.cpp', 'NMEA2000.cpp'],
    'variants': ['', 't32'],
    'lean_modules': ['N2k.Props.C12'], 'props_files': ['N2k/Props/C12.lean'],
    'translators': ['pgn_tables'],
    'case_start': ['scenario'],
    'oracle_prefixes': ['C12:'],
    'trusted_base': [],
    'assumptions': [],
}
MANIFEST = {'text': '', 'design_ref': 'DESIGN.md section 4, C12', 'note': ''}
