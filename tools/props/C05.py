"""C05 - every PGN setter/parser pair round-trips all field values (translator route).
SPEC drives tools/check.py; MANIFEST feeds tools/gen_manifest.py."""
SPEC = {
    'engine': 'layout', 'harness': 'layout.cpp',
    'repo_srcs': ['N2kMsg.cpp', 'N2kStream.cpp', 'N2kMessages.cpp', 'N2kMaretron.cpp', 'N2kTimer.cpp', 'N2kGroupFunction.cpp',
                  'N2kGroupFunctionDefaultHandlers.cpp', 'NMEA2000.cpp'],
    # an out-of-range double->integer conversion is reported per input (harness hook __ubsan_on_report, key
    # C05:<pair>:ub) instead of ending the run; every other sanitizer check still aborts
    'cxxflags': ['-fsanitize-recover=float-cast-overflow'],
    'lean_modules': ['N2k.Props.C05'], 'props_files': ['N2k/Props/C05.lean'],
    'translators': ['layouts'],
    'case_start': ['set', 'sat', 'wp', 'pgns', 'bank'],
    'trusted_base': [
        "translator tools/translators/layouts.py (clang++-14 JSON AST -> per-bit symbolic evaluation) REGENERATES "
        "lean/N2k/Gen/Layouts.lean and lean/N2k/Gen/LayoutProofs.lean from src/N2kMessages.cpp, src/N2kMaretron.cpp and "
        "src/NMEA2000.cpp on every run; it is validated on every run by the correspondence: the real setter's bytes and the "
        "real parser's outputs on generated tuples must equal `encode` / `parseMsg` of the generated layouts",
        "a setter that branches on an integer parameter compared with constants (129029 reference stations, 126993 interval "
        "limit) is translated once per path (pairs <pgn>_a / <pgn>_b (longest payload first) with the path condition `setCond`); the parser is then read "
        "under the payload constants that path writes, which are recorded as `payloadGuard` and proved to be written "
        "(`payloadGuardOK`). Which path applies to a tuple is decided by the driver from `setCond` and validated by the "
        "correspondence only",
        "the evaluator is sound by construction: a statement or expression it does not interpret exactly makes the function "
        "(or the rest of a parser behind an established PGN guard) 'not translated', never a guessed value; same-TU helper "
        "functions are fetched by name and inlined with reference semantics, loops with constant conditions are executed, "
        "guard clauses on header conditions are read as assumptions of the accepted path",
        "outside the translated fragment (reported in evidence coverage.translator.layouts): SetN2kPGN126464 (loop), the "
        "Append... builders and the per-satellite parser of 129540, variable-length strings and everything behind them, "
        "floating-point conditionals (127513 Peukert exponent), parser conditionals on non-constant payload (129029 without "
        "reference station). Those are covered by the harness' direct round-trip oracle only",
        "width W of a field: enumeration range (C++ [dcl.enum]: the values of an unscoped enumeration are 0 .. 2^M-1 for the "
        "smallest M covering the enumerators), 1 for bool, the named non-reserved bits of a status union, 8w for a scaled "
        "field, and for plain integers the number of bits the setter stores; the harness draws integer inputs from the same W",
        "repeated-record PGNs are oracle-only (no Lean obligation: the Append... builders and the indexed parser contain loops / "
        "index arithmetic outside the layout language): harness ops sat / wp / pgns / bank build 129540 with every count 0..18 and "
        "the refused 19th satellite, 129285 / 130074 with 0..24 waypoints (refusal when full must leave the message intact; "
        "records read back by an independent decoder of the published format, the library has no parser for them), 126464 "
        "with 0..74 PGNs, and the 28 two-bit items of a 127501 switch bank through the status helpers, in the quick tier too",
        "alias wrappers: inline wrappers of the headers that forward exactly their own parameters to one Set/Parse function are "
        "confirmed as pure forwarders by the translator (per overload); every other wrapper (flag-style overloads such as "
        "Set/ParseN2kTransmissionParameters with bool flags, overloads that drop or default fields) is translated like a main "
        "function (the evaluator inlines the function it calls; named bits of the status unions are placed LSB first, the "
        "GCC/clang little-endian bit-field ABI) and gets its own pair `<pgn>w<k>`, obligations and harness tuples",
        "every own-PGN parse in the harness is repeated on the payload cut to EVERY shorter length with two different garbage "
        "fillings behind DataLen; return value and outputs must be identical (key C05:<pair>:junk-dependent)",
        "NA remap: the source form `if (x == 2^n-1) x = U;` right after an n-bit field is extracted (130311 humidity source) is "
        "read as Pair.naRemap; the harness then does not treat the field's all-ones pattern as a value of its own (it IS the "
        "enumeration's NA on the wire)",
        "the model's setter is a function of the parameters only (SetPGN clears the message): every `set` op also calls the real "
        "setter on message objects with a history (same PGN before, other PGN before, stale content) and demands the fresh "
        "object's bytes; parsers with caller-sized text buffers get an independent size per buffer with a guard behind each "
        "(op `parse … cap=…`), each string checked against its own size",
        "text of the variable strings that may carry UCS-2 (AddVarStr with vss_SupportUnicode) is also exercised with UTF-8 text "
        "of 2-byte (U+0080..U+07FF) and 3-byte sequences; the conversion itself is property C16",
        "scaled fields are exchanged as integer codes: the harness calls the setter with code*resolution and converts the "
        "parsed double back with the parser-side resolution literal; the double<->code conversion itself is property C06. "
        "For 8-byte fields the harness searches the neighbouring doubles with the library's own Add8ByteDouble for one that "
        "stores the intended code",
        "text fields: fixed-length strings appear in the layouts as opaque 8n-bit parameters (bytes after padding); their "
        "content handling is property C16; the oracle compares them as strings for upper-case ASCII without padding characters",
        "hand-written documented-domain exceptions in harness/layout.cpp: PGN 129029 transmits at most one reference station "
        "(nReferenceStations in {0,1,NA}; station type/id/age only with 1; id is a 12-bit field), PGN 127513 Peukert exponent "
        "is 1..1.504",
    ],
    'assumptions': ["field values within the documented ranges (enumerators and bit patterns of the field width, integer "
                    "values that fit the bits the setter stores, scaled values between the minimum and the out-of-range code)",
                    "x86-64 LP64 little endian, IEEE double (unsigned long is 64 bits)",
                    "payload of the message = what the setter produced (DataLen unchanged); junk only behind DataLen"],
}
MANIFEST = {
    'text': "For every SetN2kPGNxxx/ParseN2kPGNxxx pair of N2kMessages, N2kMaretron and the system PGNs a translator reads, on "
            "every run, a bit-level setter layout off the setter and a parser layout off the parser (clang AST, symbolic per-bit "
            "evaluation). The Lean kernel then decides one obligation per field (the parser reads the field from exactly the bits "
            "the setter wrote, same offset/width/signedness/resolution for scaled fields) and per pair (PGN guard equals the PGN "
            "set, proprietary header constants, accepted length). A generic theorem, proved once, turns the obligations into: "
            "for ALL field values below 2^W parsing the setter's message succeeds and returns every field, a foreign PGN is "
            "refused, and mirrored fields never read behind the payload. The correspondence run calls the real setters and "
            "parsers on generated tuples (per field zero, one, min, max, negative, largest representable, NA, every enumerator "
            "and bit pattern of packed fields, single bits, random; all-NA/zero/max tuples; junk behind the payload; foreign "
            "PGNs) and compares bytes and outputs with the generated layouts; an independent oracle checks the round trip "
            "directly, including the pairs and fields the translator cannot express.",
    'design_ref': 'DESIGN.md section 4, C05',
    'note': "Trusted: Lean kernel; the translator (validated by the differential run on every run, and by a failing `decide` "
            "whenever setter and parser disagree); IEEE conversion of scaled fields is C06's; string content is C16's. Not "
            "translated (oracle only): 126464, Append builders / 129540 satellites, variable strings and what follows them, "
            "floating-point conditionals. Models the tree with the eleven C05 fix commits (the last one, 425635f, repairs the 130311 "
            "humidity-source NA, read by the translator as an NA remap of the 2-bit field); no open finding.",
}
