"""C11 - send queue under driver back-pressure."""
SPEC = {
    'engine': 'send', 'harness': 'send.cpp',
    'repo_srcs': ['N2kMsg.cpp', 'N2kStream.cpp', 'N2kMessages.cpp', 'N2kTimer.cpp', 'N2kGroupFunction.cpp', 'N2kGroupFunctionDefaultHandlers.cpp', 'NMEA2000.cpp'],
    'variants': ['', 't32'],
    'lean_modules': ['N2k.Props.C11'], 'props_files': ['N2k/Props/C11.lean'],
    'translators': ['pgn_tables'],
    'case_start': ['reset', 'reset0', 'tpseq'],
    'trusted_base': ["model N2k/Model/Send.lean transcribes SendFrames/SendFrame/GetNextFreeCANSendFrame and the fast-packet "
                     "loop of SendMsg by hand; the CAN driver is an arbitrary accept/refuse oracle",
                     "harness oracle counts produced frames from the protected queue indices (CANSendFrameBufferRead/Write)"],
    'assumptions': ["single-threaded polling (no interrupt-driven driver buffering)", "default compile-time configuration",
                    "frames handed to SendFrame have len <= 8 (true for every caller in the library)"],
}
MANIFEST = {
    'text': "Refinement theorem over EVERY operation sequence (SendFrame / poll), queue size n>=2 and accept/refuse pattern: "
            "driver-accepted ++ queued-in-ring-order = the frames whose send was reported successful, in order (no loss, "
            "duplication or overtaking); failure leaves the queue untouched; a fast packet interrupted by refusal leaves exactly "
            "its produced prefix; an accepting poll delivers everything owed. Tied to NMEA2000.cpp by a correspondence run behind "
            "a scripted mock driver (both timer builds; random back-pressure, all accept/refuse patterns over a fixed op "
            "script for small queues) and a shadow-FIFO oracle.",
    'design_ref': 'DESIGN.md section 4, C11',
    'note': "Trusted: Lean kernel; hand transcription validated by differential runs only; uint16_t ring indices on Nat "
            "(MaxCANSendFrames <= 65535, read/write < size so no overflow).",
}
