import N2k.Spec.J1939
/-!
# ISO 11783-3 / SAE J1939-21 transport protocol wire format (specification side of C10)
Written from the public definitions, independent of the library source.

A message of `L` bytes (9 ≤ L ≤ 1785; this library: ≤ 223) is announced by a TP.CM frame (PGN 60416)
`[control, L lo, L hi, packet count, 0xFF | max packets, PGN lo, PGN mid, PGN hi]` (control 16 = RTS, 32 = BAM) and carried
by ⌈L/7⌉ TP.DT frames (PGN 60160) `[k, 7 payload bytes]`, k = 1, 2, …, the last one padded with 0xFF.
CTS = `[17, packets, next packet, FF, FF, PGN]`, EndOfMsgACK = `[19, L lo, L hi, packets, FF, PGN]`,
Abort = `[255, reason, FF, FF, FF, PGN]`.
-/
namespace N2k.Spec

def tpPacketCount (L : Nat) : Nat := (L + 6) / 7

def pgnBytes (pgn : Nat) : List Nat := [pgn % 256, pgn / 256 % 256, pgn / 65536 % 256]

/-- the announce frame (RTS: control 16, BAM: control 32) -/
def tpAnnounce (ctrl : Nat) (pl : List Nat) (pgn : Nat) : List Nat :=
  [ctrl, pl.length % 256, pl.length / 256, tpPacketCount pl.length, 0xff] ++ pgnBytes pgn

/-- data packet number `k` (from 1): payload bytes 7(k-1) .. 7(k-1)+6, 0xFF beyond the payload -/
def tpDT (pl : List Nat) (k : Nat) : List Nat :=
  [k] ++ (List.range 7).map fun j => fpByte pl (7 * (k - 1) + j)

def tpDTs (pl : List Nat) : List (List Nat) :=
  (List.range (tpPacketCount pl.length)).map fun i => tpDT pl (i + 1)

def tpCTS (packets next pgn : Nat) : List Nat := [17, packets, next, 0xff, 0xff] ++ pgnBytes pgn
def tpEndAck (size packets pgn : Nat) : List Nat := [19, size % 256, size / 256, packets, 0xff] ++ pgnBytes pgn
def tpAbort (reason pgn : Nat) : List Nat := [255, reason, 0xff, 0xff, 0xff] ++ pgnBytes pgn

/-- what a receiver does: strip the sequence numbers, concatenate, cut at the announced size -/
def tpReassemble (size : Nat) (pkts : List (List Nat)) : List Nat :=
  ((pkts.map (·.drop 1)).flatten).take size

/-! ## reference bookkeeping of a receiver over a whole frame history -/

/-- what a received frame means to the transport protocol -/
inductive TpEv where
  | announce (src dst pgn size : Nat)            -- TP.CM RTS or BAM
  | data (src dst seq : Nat) (bytes : List Nat)  -- TP.DT with its sequence number and payload bytes
  | other                                        -- anything else
  deriving Repr

/-- an open transfer of one source/destination pair: PGN and size of its announce, payloads of the packets 1, 2, … so far -/
structure TpSess where
  pgn : Nat
  size : Nat
  pk : List (List Nat)
  deriving Repr

/-- one event seen by the bookkeeping of the pair `src → dst`: an announce of the pair (re)starts a transfer; a data packet of
the pair continues it only with the next sequence number, any other number ends it; everything else is ignored -/
def tpStep (src dst : Nat) (st : Option TpSess) : TpEv → Option TpSess
  | .announce s d pgn size => if s = src ∧ d = dst then some ⟨pgn, size, []⟩ else st
  | .data s d seq bytes =>
    if s = src ∧ d = dst then
      match st with
      | some x => if seq = x.pk.length + 1 then some { x with pk := x.pk ++ [bytes] } else none
      | none => none
    else st
  | .other => st

/-- the transfer of the pair that is open after the history `evs` (the packets since its last announce arrived complete and in
order, with no other data packet of the pair in between) -/
def tpTrack (src dst : Nat) (evs : List TpEv) : Option TpSess := evs.foldl (tpStep src dst) none

end N2k.Spec
