import N2k.Lemmas.DeviceListOther
/-!
# C18 helper lemmas, part 5: one run of `HandleMsg`

`handleMsg_spec`: under `Inv` a run of `HandleMsg` never faults, re-establishes `Inv`, and is described by
`StepDesc` - one constructor per path through the two `switch` statements. The corollaries `step_names_*` are the
NAME-level facts the refinement theorem needs.
-/
namespace N2k.DeviceList

/-- the reservation `AddDevice` creates -/
def placeholder (e : Env) (src : Nat) : Device := (Device.new e 0).setSource src

/-- effect of the first `switch` (reserve an entry for an unknown source) -/
structure Pre (e : Env) (s s0 : State) (src : Nat) : Prop where
  upd : s0.listUpdated = s.listUpdated
  eff : devAt s0 = devAt s ∨
        (devAt s src = none ∧ ∀ j, devAt s0 j = if j = src then some (placeholder e src) else devAt s j)

/-- effect of the tail of `HandleMsg` -/
structure Post (s1 s' : State) : Prop where
  core : SameCore (devAt s1) (devAt s')
  upd : s'.listUpdated = s1.listUpdated

/-- what `HandleIsoAddressClaim` guarantees (see `handleClaim_spec`) -/
structure ClaimFacts (s s1 : State) (m : Msg) : Prop where
  at_src : ∃ d, devAt s1 m.source = some d ∧ d.name = claimName m
  others : ∀ x dx, x ≠ m.source → devAt s x = some dx → dx.name ≠ claimName m → devAt s1 x = some dx
  change : (s1 = s ∧ ∃ d, devAt s m.source = some d ∧ d.name = claimName m ∧ claimName m ≠ 0) ∨
           (s1.listUpdated = true ∧ ∃ d, devAt s1 m.source = some d ∧ d.prodLoaded = false)
  reclaim : ∀ d, devAt s m.source = some d → d.name = claimName m → d.name ≠ 0 → s1 = s

inductive StepDesc (e : Env) (s s' : State) (m : Msg) : Prop
  | ignored : m.source ≥ MaxBusDevices → s' = s → StepDesc e s s' m
  | claim (s1 : State) : m.source < MaxBusDevices → m.pgn = pgnClaim → ClaimFacts s s1 m → Post s1 s' → StepDesc e s s' m
  | reserved : m.source < MaxBusDevices → m.pgn ≠ pgnClaim → isInfoPgn m.pgn = false → devAt s m.source = none →
      Pre e s s' m.source → StepDesc e s s' m
  | prod (s0 s1 : State) : m.source < MaxBusDevices → m.pgn = pgnProd → Pre e s s0 m.source →
      InfoStep s0 s1 m.source (fun d d' => ∃ p, parseProd e m = .ok p ∧
        d' = (if d.prodLoaded then d else (prodUpdate d p).1) ∧
        s1.listUpdated = (s0.listUpdated || (!d.prodLoaded && (prodUpdate d p).2))) →
      Post s1 s' → StepDesc e s s' m
  | conf (s0 s1 : State) : m.source < MaxBusDevices → m.pgn = pgnConf → Pre e s s0 m.source →
      InfoStep s0 s1 m.source (fun d d' => ∃ r, confUpdate e d m = .ok r ∧ d' = r.1 ∧ ConfChanged d d' ∧
        s1.listUpdated = (s0.listUpdated || r.2)) →
      Post s1 s' → StepDesc e s s' m
  | pgns (s0 s1 : State) : m.source < MaxBusDevices → m.pgn = pgnList → Pre e s s0 m.source →
      InfoStep s0 s1 m.source (fun d d' => pgnUpdate e d m = .ok d' ∧ PgnChanged d d' ∧ s1.listUpdated = true) →
      Post s1 s' → StepDesc e s s' m
  | other : m.source < MaxBusDevices → m.pgn ≠ pgnClaim → isInfoPgn m.pgn = false → devAt s m.source ≠ none →
      Post s s' → StepDesc e s s' m

theorem Pre.refl (e : Env) (s : State) (src : Nat) : Pre e s s src := ⟨rfl, Or.inl rfl⟩

/-- the first `switch` for a non-claim message -/
theorem preStep_spec (e : Env) {s : State} (hi : Inv s) (m : Msg) (hsrc : m.source < MaxBusDevices)
    (hpgn : m.pgn ≠ pgnClaim) :
    ∃ r, preStep e s m = .ok r ∧ Inv r.1 ∧ Pre e s r.1 m.source ∧
      (r.2 = true → isInfoPgn m.pgn = false ∧ devAt s m.source = none) ∧
      (r.2 = false → isInfoPgn m.pgn = false → r.1 = s ∧ s.sources m.source ≠ none) := by
  unfold preStep
  cases hs : s.sources m.source with
  | some id =>
    refine ⟨(s, false), by simp, hi, Pre.refl e s _, (by intro h; cases h), ?_⟩
    intro _ _
    exact ⟨rfl, by simp⟩
  | none =>
    obtain ⟨s1, h1, hi1, hl, heff⟩ := addDevice_spec e hi hsrc hs
    refine ⟨(s1, !isInfoPgn m.pgn), by simp [hpgn, h1], hi1, ⟨hl, ?_⟩, ?_, ?_⟩
    · rcases heff with h | h
      · exact Or.inl h.1
      · exact Or.inr ⟨devAt_none hs, h.2⟩
    · intro h
      exact ⟨by simpa using h, devAt_none hs⟩
    · intro h h2
      simp [h2] at h

theorem handleMsg_spec (e : Env) {s : State} (hi : Inv s) (m : Msg) :
    ∃ s', handleMsg e s m = .ok s' ∧ Inv s' ∧ StepDesc e s s' m := by
  unfold handleMsg
  by_cases h254 : m.source ≥ MaxBusDevices
  · exact ⟨s, by simp [h254], hi, .ignored h254 rfl⟩
  · have hsrc : m.source < MaxBusDevices := by omega
    simp only [h254, if_false]
    by_cases hc : m.pgn = pgnClaim
    · -- address claim: no reservation, straight to the handler
      have hpre : preStep e s m = .ok (s, false) := by
        unfold preStep; simp [hc]
      simp only [hpre, Bool.false_eq_true, if_false, dispatch, hc, if_true]
      obtain ⟨s1, h1, hi1, f1, f2, f3⟩ := handleClaim_spec e hi m hc hsrc
      simp only [h1]
      obtain ⟨s', h2, hi2, hcore, hl⟩ := postStep_spec e hi1 m.source
      refine ⟨s', h2, hi2, .claim s1 hsrc hc ⟨f1, f2, f3, ?_⟩ ⟨hcore, hl⟩⟩
      intro d hd hn h0
      have := handleClaim_reclaim e hi m hc hsrc hd hn h0
      rw [this] at h1; cases h1; rfl
    · obtain ⟨r, hr, hi0, hpre, hret, hcont⟩ := preStep_spec e hi m hsrc hc
      simp only [hr]
      by_cases hr2 : r.2 = true
      · simp only [hr2, if_true]
        obtain ⟨hinfo, hnone⟩ := hret hr2
        exact ⟨r.1, rfl, hi0, .reserved hsrc hc hinfo hnone hpre⟩
      · simp only [hr2, if_false]
        simp only [dispatch, hc, if_false]
        by_cases hp : m.pgn = pgnProd
        · simp only [hp, if_true]
          obtain ⟨s1, h1, hstep⟩ := handleProd_spec e hi0 m hsrc
          simp only [h1]
          obtain ⟨s', h2, hi2, hcore, hl⟩ := postStep_spec e hstep.inv m.source
          exact ⟨s', h2, hi2, .prod r.1 s1 hsrc hp hpre hstep ⟨hcore, hl⟩⟩
        · simp only [hp, if_false]
          by_cases hcf : m.pgn = pgnConf
          · simp only [hcf, if_true]
            obtain ⟨s1, h1, hstep⟩ := handleConf_spec e hi0 m hsrc
            simp only [h1]
            obtain ⟨s', h2, hi2, hcore, hl⟩ := postStep_spec e hstep.inv m.source
            exact ⟨s', h2, hi2, .conf r.1 s1 hsrc hcf hpre hstep ⟨hcore, hl⟩⟩
          · simp only [hcf, if_false]
            by_cases hpl : m.pgn = pgnList
            · simp only [hpl, if_true]
              obtain ⟨s1, h1, hstep⟩ := handlePGNList_spec e hi0 m hsrc
              simp only [h1]
              obtain ⟨s', h2, hi2, hcore, hl⟩ := postStep_spec e hstep.inv m.source
              exact ⟨s', h2, hi2, .pgns r.1 s1 hsrc hpl hpre hstep ⟨hcore, hl⟩⟩
            · simp only [hpl, if_false]
              have hinfo : isInfoPgn m.pgn = false := by simp [isInfoPgn, hp, hcf, hpl]
              obtain ⟨hrs, hsome⟩ := hcont (by simpa using hr2) hinfo
              rw [hrs]
              obtain ⟨s1, h1, hi1, hcore1, hl1⟩ := handleOther_spec e hi m hsome
              simp only [h1]
              obtain ⟨s', h2, hi2, hcore, hl⟩ := postStep_spec e hi1 m.source
              refine ⟨s', h2, hi2, .other hsrc hc hinfo ?_ ⟨hcore1.trans hcore, by rw [hl, hl1]⟩⟩
              intro hn
              unfold devAt at hn
              cases hs : s.sources m.source with
              | none => exact hsome hs
              | some id =>
                obtain ⟨d, hd, _, hda⟩ := devAt_some hi.st hs
                unfold devAt at hda
                rw [hn] at hda; cases hda

/-- a run over a history never faults and keeps the invariant -/
theorem run_spec : ∀ (h : List (Env × Msg)) {s : State}, Inv s → ∃ s', run s h = .ok s' ∧ Inv s' := by
  intro h
  induction h with
  | nil => intro s hi; exact ⟨s, rfl, hi⟩
  | cons em t ih =>
    intro s hi
    obtain ⟨s1, h1, hi1, _⟩ := handleMsg_spec em.1 hi em.2
    obtain ⟨s', h2, hi2⟩ := ih hi1
    exact ⟨s', by simp [run, h1, h2], hi2⟩

/-! ## NAME-level corollaries -/

theorem Pre.names {e : Env} {s s0 : State} {src : Nat} (h : Pre e s s0 src) {x : Nat} {d : Device}
    (hd : devAt s x = some d) : devAt s0 x = some d := by
  rcases h.eff with h1 | ⟨hn, h1⟩
  · rw [h1]; exact hd
  · rw [h1]
    by_cases hx : x = src
    · subst hx; rw [hn] at hd; cases hd
    · simp [hx, hd]

theorem Post.names {s1 s' : State} (h : Post s1 s') {x : Nat} {d : Device} (hd : devAt s1 x = some d) :
    ∃ d', devAt s' x = some d' ∧ d'.core = d.core := h.core.get hd

theorem InfoStep.names {s0 s1 : State} {src : Nat} {R : Device → Device → Prop} (h : InfoStep s0 s1 src R)
    {x : Nat} {d : Device} (hd : devAt s0 x = some d) : ∃ d', devAt s1 x = some d' ∧ d'.name = d.name := by
  by_cases hx : x = src
  · subst hx
    obtain ⟨d', h1, _, h2⟩ := h.present d hd
    exact ⟨d', h1, h2⟩
  · exact ⟨d, by rw [h.other x hx]; exact hd, rfl⟩

/-- a message that is not a claim keeps the NAME under every source -/
theorem step_names_other {e : Env} {s s' : State} {m : Msg} (h : StepDesc e s s' m)
    (hnc : m.pgn ≠ pgnClaim ∨ m.source ≥ MaxBusDevices) {x : Nat} {d : Device} (hd : devAt s x = some d) :
    ∃ d', devAt s' x = some d' ∧ d'.name = d.name := by
  cases h with
  | ignored _ hs => subst hs; exact ⟨d, hd, rfl⟩
  | claim s1 hsrc hc _ _ => rcases hnc with h | h; exact absurd hc h; omega
  | reserved _ _ _ _ hpre => exact ⟨d, hpre.names hd, rfl⟩
  | prod s0 s1 _ _ hpre hstep hpost =>
    obtain ⟨d1, h1, hn1⟩ := hstep.names (hpre.names hd)
    obtain ⟨d2, h2, hc2⟩ := hpost.names h1
    exact ⟨d2, h2, by rw [core_name hc2, hn1]⟩
  | conf s0 s1 _ _ hpre hstep hpost =>
    obtain ⟨d1, h1, hn1⟩ := hstep.names (hpre.names hd)
    obtain ⟨d2, h2, hc2⟩ := hpost.names h1
    exact ⟨d2, h2, by rw [core_name hc2, hn1]⟩
  | pgns s0 s1 _ _ hpre hstep hpost =>
    obtain ⟨d1, h1, hn1⟩ := hstep.names (hpre.names hd)
    obtain ⟨d2, h2, hc2⟩ := hpost.names h1
    exact ⟨d2, h2, by rw [core_name hc2, hn1]⟩
  | other _ _ _ _ hpost =>
    obtain ⟨d2, h2, hc2⟩ := hpost.names hd
    exact ⟨d2, h2, core_name hc2⟩

/-- an address claim `(src,name)`: afterwards the entry under `src` carries `name`, and every entry under another
    source with another NAME is still there -/
theorem step_names_claim {e : Env} {s s' : State} {m : Msg} (h : StepDesc e s s' m)
    (hc : m.pgn = pgnClaim) (hsrc : m.source < MaxBusDevices) :
    (∃ d, devAt s' m.source = some d ∧ d.name = claimName m) ∧
    (∀ x d, x ≠ m.source → devAt s x = some d → d.name ≠ claimName m → ∃ d', devAt s' x = some d' ∧ d'.name = d.name) := by
  have hinfo : isInfoPgn pgnClaim = false := by decide
  cases h with
  | ignored h254 _ => omega
  | claim s1 _ _ hf hpost =>
    refine ⟨?_, ?_⟩
    · obtain ⟨d, hd, hn⟩ := hf.at_src
      obtain ⟨d', h1, h2⟩ := hpost.names hd
      exact ⟨d', h1, by rw [core_name h2, hn]⟩
    · intro x d hx hd hn
      obtain ⟨d', h1, h2⟩ := hpost.names (hf.others x d hx hd hn)
      exact ⟨d', h1, core_name h2⟩
  | reserved _ hnc _ _ _ => exact absurd hc hnc
  | prod s0 s1 _ hp _ _ _ => rw [hc] at hp; cases hp
  | conf s0 s1 _ hp _ _ _ => rw [hc] at hp; cases hp
  | pgns s0 s1 _ hp _ _ _ => rw [hc] at hp; cases hp
  | other _ hnc _ _ _ => exact absurd hc hnc

end N2k.DeviceList
