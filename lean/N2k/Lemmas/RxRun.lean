import N2k.Lemmas.RxRefine
/-!
# Refinement over whole histories, and a sufficient condition for the slot search to succeed
-/
namespace N2k.Rx
open Spec

/-- first frame of a fast packet, or a single frame: the frames that need a slot -/
def needsSlot (c : Cfg) (f : Frame) : Bool := !(isFP c f.pgn && f.byte 0 % 32 != 0)

def availStep (c : Cfg) (st : St) (f : Frame) : Bool := !(handled c f && needsSlot c f) || avail st f

/-- at every first / single frame of the history the slot search finds the slot of the frame's PGN and source or a
free slot (it neither gives up nor recycles a slot that is older than 100 ms). Decidable on a concrete run. -/
def AvailRun (c : Cfg) : St → List (Nat × Frame) → Prop
  | _, [] => True
  | st, e :: rest => availStep c st e.2 = true ∧ AvailRun c (rx c st e.1 e.2).1 rest

theorem delivered_cons (c : Cfg) (st : St) (e : Nat × Frame) (rest : List (Nat × Frame)) :
    delivered c st (e :: rest) =
      (match (rx c st e.1 e.2).2 with | some m => [m] | none => []) ++ delivered c (rx c st e.1 e.2).1 rest := by
  unfold delivered
  simp only [outputs]
  cases (rx c st e.1 e.2).2 <;> simp

theorem run_refines (c : Cfg) : ∀ (evs : List (Nat × Frame)) (st : St) (H : List Frame) (S : SState),
    Inv (isFP c) st H → Abs st S → NoTP st → (∀ e ∈ evs, WFrame e.2) → (∀ e ∈ evs, isTPOpen e.2 = false) →
    AvailRun c st evs →
    delivered c st evs = (Spec.outputs (isFP c) S (handledFrames c evs)).filterMap id
  | [], _, _, _, _, _, _, _, _, _ => by simp [delivered, N2k.Rx.outputs, handledFrames, Spec.outputs]
  | e :: rest, st, H, S, hI, hA, hT, hwf, hnt, hav => by
    have hwe : WFrame e.2 := hwf e (by simp)
    obtain ⟨hI', _⟩ := rx_spec c st H hI e.1 e.2 hwe
    rw [delivered_cons, handledFrames_cons]
    by_cases hh : handled c e.2 = true
    · have hrx : rx c st e.1 e.2 = rxCore (isFP c) st e.1 e.2 := by unfold rx; rw [if_pos hh]
      have hr := rxCore_refines (isFP c) (isFP_zero c) st H S hI hA hT e.1 e.2 hwe (by
        intro hn
        have := hav.1
        unfold availStep at this
        have hns : needsSlot c e.2 = true := by unfold needsSlot; rw [hn]; rfl
        simpa [hh, hns] using this)
      simp only [hh, ↓reduceIte, List.singleton_append, Spec.outputs]
      rw [run_refines c rest _ _ (step (isFP c) S e.2).1 hI' (by rw [hrx]; exact hr.1)
        (by rw [hrx]; exact hT.rxCore _ _ _)
        (fun x hx => hwf x (by simp [hx])) (fun x hx => hnt x (by simp [hx])) hav.2]
      rw [hrx, hr.2]
      cases (step (isFP c) S e.2).2 <;> simp
    · have hrx : rx c st e.1 e.2 = (st, none) := by
        unfold rx; rw [if_neg hh, hnt e (by simp)]; rfl
      simp only [hh, Bool.false_eq_true, ↓reduceIte, List.nil_append]
      rw [run_refines c rest _ _ S hI' (by rw [hrx]; exact hA) (by rw [hrx]; exact hT)
        (fun x hx => hwf x (by simp [hx])) (fun x hx => hnt x (by simp [hx])) hav.2]
      rw [hrx]; rfl

/-! ### as many (PGN, source) pairs as slots ⇒ the search always succeeds -/

theorem nodup_map_range {α : Type} (g : Nat → α) (n : Nat)
    (hinj : ∀ i j, i < n → j < n → g i = g j → i = j) : ((List.range n).map g).Nodup := by
  unfold List.Nodup
  rw [List.pairwise_map]
  refine List.Pairwise.imp_of_mem ?_ (List.nodup_range (n := n))
  intro a b ha hb hne heq
  exact hne (hinj a b (List.mem_range.mp ha) (List.mem_range.mp hb) heq)

/-- pigeonhole: if all (PGN, source) pairs that have occurred, and the one of `f`, lie in a list `K` of at most `N`
pairs, then a slot of `f`'s pair or a free slot exists -/
theorem avail_of_few_keys (c : Cfg) (st : St) (H : List Frame) (hI : Inv (isFP c) st H) (hT : NoTP st) (K : List (Nat × Nat))
    (hK : K.length ≤ st.N) (hH : ∀ g ∈ H, (g.pgn, g.src) ∈ K) (f : Frame) (hfK : (f.pgn, f.src) ∈ K) :
    avail st f = true := by
  apply Decidable.byContradiction
  intro hna
  unfold avail at hna
  simp only [Bool.or_eq_true, decide_eq_true_eq, not_or] at hna
  obtain ⟨hnm, hnf⟩ := hna
  have hbusy : ∀ j, j < st.N → (st.slot j).free = false := by
    intro j hj
    have := findFirst_none st (fun s => s.free) hnf j hj
    simpa using this
  let g : Nat → Nat × Nat := fun j => ((st.slot j).pgn, (st.slot j).src)
  have hnd : ((f.pgn, f.src) :: (List.range st.N).map g).Nodup := by
    rw [List.nodup_cons]
    refine ⟨?_, nodup_map_range g st.N ?_⟩
    · intro hmem
      obtain ⟨j, hj, hgj⟩ := List.mem_map.mp hmem
      have hj' := List.mem_range.mp hj
      simp only [g, Prod.mk.injEq] at hgj
      exact Inv.others_of_nomatch f hnm j hj' (hT j hj') hgj
    · intro i j hi hj hij
      simp only [g, Prod.mk.injEq] at hij
      exact hI.uniq i j hi hj (hbusy i hi) (hbusy j hj) (hT i hi) (hT j hj) hij.1 hij.2
  have hsub : ((f.pgn, f.src) :: (List.range st.N).map g) ⊆ K := by
    intro x hx
    rcases List.mem_cons.mp hx with hx | hx
    · rw [hx]; exact hfK
    · obtain ⟨j, hj, hgj⟩ := List.mem_map.mp hx
      have hj' := List.mem_range.mp hj
      obtain ⟨_, ⟨f0, hw⟩, hsuf⟩ := hI.busy j hj' (hbusy j hj') (hT j hj')
      have h0mem : f0 ∈ (st.slot j).hist := List.mem_of_mem_head? hw.chain.head
      have h0k : f0 ∈ keyHist H (st.slot j).pgn (st.slot j).src := hsuf.subset h0mem
      unfold keyHist at h0k
      rw [List.mem_filter] at h0k
      obtain ⟨hmemH, hkk⟩ := h0k
      simp only [Bool.and_eq_true, beq_iff_eq] at hkk
      have := hH f0 hmemH
      rw [hkk.1, hkk.2] at this
      rw [← hgj]; exact this
  have hlen := hnd.length_le_of_subset hsub
  simp only [List.length_cons, List.length_map, List.length_range] at hlen
  omega

theorem availRun_of_few_keys (c : Cfg) (K : List (Nat × Nat)) :
    ∀ (evs : List (Nat × Frame)) (st : St) (H : List Frame), Inv (isFP c) st H → NoTP st → K.length ≤ st.N →
    (∀ g ∈ H, (g.pgn, g.src) ∈ K) → (∀ e ∈ evs, WFrame e.2) → (∀ e ∈ evs, isTPOpen e.2 = false) →
    (∀ e ∈ evs, handled c e.2 = true → (e.2.pgn, e.2.src) ∈ K) → AvailRun c st evs
  | [], _, _, _, _, _, _, _, _, _ => trivial
  | e :: rest, st, H, hI, hT, hK, hH, hwf, hnt, hev => by
    have hwe : WFrame e.2 := hwf e (by simp)
    obtain ⟨hI', _⟩ := rx_spec c st H hI e.1 e.2 hwe
    have hT' : NoTP (rx c st e.1 e.2).1 := by
      unfold rx
      split
      · exact hT.rxCore _ _ _
      · rw [hnt e (by simp)]; exact hT
    refine ⟨?_, availRun_of_few_keys c K rest _ _ hI' hT' (by rw [rx_N]; exact hK) ?_
      (fun x hx => hwf x (by simp [hx])) (fun x hx => hnt x (by simp [hx])) (fun x hx => hev x (by simp [hx]))⟩
    · unfold availStep
      by_cases hh : handled c e.2 = true
      · rw [avail_of_few_keys c st H hI hT K hK hH e.2 (hev e (by simp) hh)]; simp
      · simp [hh]
    · intro g hg
      rw [List.mem_append] at hg
      rcases hg with hg | hg
      · exact hH g hg
      · by_cases hh : handled c e.2 = true
        · simp only [hh, ↓reduceIte, List.mem_singleton] at hg
          rw [hg]; exact hev e (by simp) hh
        · simp [hh] at hg

/-! ### the hypothesis on the INPUT only: at most `N` unfinished messages at any time -/

/-- the unfinished messages of the abstract reassembler, together with the message `f` starts, belong to at most
`N` different (PGN, source) pairs -/
def Spec.fits (N : Nat) (S : SState) (f : Frame) : Prop :=
  ∃ K : List (Nat × Nat), K.length ≤ N ∧ (f.pgn, f.src) ∈ K ∧ ∀ pgn src, S pgn src ≠ [] → (pgn, src) ∈ K

/-- "up to as many concurrent senders as there are reassembly slots": along the run of the ABSTRACT reassembler over
the frames, whenever a first or single frame arrives, `Spec.fits` holds. A property of the frame sequence alone. -/
def Spec.Fits (c : Cfg) (N : Nat) : SState → List Frame → Prop
  | _, [] => True
  | S, f :: rest => (needsSlot c f = true → Spec.fits N S f) ∧ Spec.Fits c N (step (isFP c) S f).1 rest

theorem avail_of_fits (c : Cfg) (st : St) (H : List Frame) (S : SState) (hI : Inv (isFP c) st H) (hA : Abs st S)
    (hT : NoTP st) (f : Frame)
    (hfit : Spec.fits st.N S f) : avail st f = true := by
  obtain ⟨K, hK, hfK, hS⟩ := hfit
  apply Decidable.byContradiction
  intro hna
  unfold avail at hna
  simp only [Bool.or_eq_true, decide_eq_true_eq, not_or] at hna
  obtain ⟨hnm, hnf⟩ := hna
  have hbusy : ∀ j, j < st.N → (st.slot j).free = false := by
    intro j hj
    have := findFirst_none st (fun s => s.free) hnf j hj
    simpa using this
  let g : Nat → Nat × Nat := fun j => ((st.slot j).pgn, (st.slot j).src)
  have hnd : ((f.pgn, f.src) :: (List.range st.N).map g).Nodup := by
    rw [List.nodup_cons]
    refine ⟨?_, nodup_map_range g st.N ?_⟩
    · intro hmem
      obtain ⟨j, hj, hgj⟩ := List.mem_map.mp hmem
      have hj' := List.mem_range.mp hj
      simp only [g, Prod.mk.injEq] at hgj
      exact Inv.others_of_nomatch f hnm j hj' (hT j hj') hgj
    · intro i j hi hj hij
      simp only [g, Prod.mk.injEq] at hij
      exact hI.uniq i j hi hj (hbusy i hi) (hbusy j hj) (hT i hi) (hT j hj) hij.1 hij.2
  have hsub : ((f.pgn, f.src) :: (List.range st.N).map g) ⊆ K := by
    intro x hx
    rcases List.mem_cons.mp hx with hx | hx
    · rw [hx]; exact hfK
    · obtain ⟨j, hj, hgj⟩ := List.mem_map.mp hx
      have hj' := List.mem_range.mp hj
      rw [← hgj]
      apply hS
      rcases hA (st.slot j).pgn (st.slot j).src with ⟨_, h2⟩ | ⟨j2, hj2, hf2, hp2, hs2, hh2⟩
      · exact absurd ⟨rfl, rfl⟩ (h2 j hj' (hbusy j hj'))
      · obtain ⟨_, ⟨f0, hw⟩, _⟩ := hI.busy j2 hj2 hf2 (hT j2 hj2)
        rw [← hh2]; exact hw.chain.ne_nil
  have hlen := hnd.length_le_of_subset hsub
  simp only [List.length_cons, List.length_map, List.length_range] at hlen
  omega

theorem availRun_of_fits (c : Cfg) : ∀ (evs : List (Nat × Frame)) (st : St) (H : List Frame) (S : SState),
    Inv (isFP c) st H → Abs st S → NoTP st → (∀ e ∈ evs, WFrame e.2) → (∀ e ∈ evs, isTPOpen e.2 = false) →
    Spec.Fits c st.N S (handledFrames c evs) → AvailRun c st evs
  | [], _, _, _, _, _, _, _, _, _ => trivial
  | e :: rest, st, H, S, hI, hA, hT, hwf, hnt, hfit => by
    have hwe : WFrame e.2 := hwf e (by simp)
    obtain ⟨hI', _⟩ := rx_spec c st H hI e.1 e.2 hwe
    rw [handledFrames_cons] at hfit
    by_cases hh : handled c e.2 = true
    · simp only [hh, ↓reduceIte, List.singleton_append] at hfit
      have hrx : rx c st e.1 e.2 = rxCore (isFP c) st e.1 e.2 := by unfold rx; rw [if_pos hh]
      have hav : needsSlot c e.2 = true → avail st e.2 = true :=
        fun hn => avail_of_fits c st H S hI hA hT e.2 (hfit.1 hn)
      have hr := rxCore_refines (isFP c) (isFP_zero c) st H S hI hA hT e.1 e.2 hwe (by
        intro hn; apply hav; unfold needsSlot; rw [hn]; rfl)
      refine ⟨?_, availRun_of_fits c rest _ _ (step (isFP c) S e.2).1 hI' (by rw [hrx]; exact hr.1)
        (by rw [hrx]; exact hT.rxCore _ _ _)
        (fun x hx => hwf x (by simp [hx])) (fun x hx => hnt x (by simp [hx])) (by rw [rx_N]; exact hfit.2)⟩
      unfold availStep
      by_cases hn : needsSlot c e.2 = true
      · rw [hav hn]; simp
      · simp [hn]
    · simp only [hh, Bool.false_eq_true, ↓reduceIte, List.nil_append] at hfit
      have hrx : rx c st e.1 e.2 = (st, none) := by
        unfold rx; rw [if_neg hh, hnt e (by simp)]; rfl
      refine ⟨by unfold availStep; simp [hh], availRun_of_fits c rest _ _ S hI' (by rw [hrx]; exact hA)
        (by rw [hrx]; exact hT)
        (fun x hx => hwf x (by simp [hx])) (fun x hx => hnt x (by simp [hx])) (by rw [rx_N]; exact hfit)⟩

/-- the abstract reassembler only ever holds messages of (PGN, source) pairs it has seen -/
theorem step_keys (isFP : Nat → Bool) (S : SState) (f : Frame) (pgn src : Nat) (h : (step isFP S f).1 pgn src ≠ []) :
    S pgn src ≠ [] ∨ (pgn, src) = (f.pgn, f.src) := by
  by_cases hk : pgn = f.pgn ∧ src = f.src
  · right; rw [hk.1, hk.2]
  · left
    have hs : ∀ w, sset S f.pgn f.src w pgn src = S pgn src := fun w => by simp [sset, hk]
    unfold step at h
    split at h
    · split at h
      · split at h
        · dsimp only at h; rwa [hs] at h
        · dsimp only at h; rwa [hs] at h
      · split at h
        · exact h
        · split at h
          · split at h
            · dsimp only at h; rwa [hs] at h
            · dsimp only at h; rwa [hs] at h
          · dsimp only at h; rwa [hs] at h
    · exact h

theorem fits_of_few_keys (c : Cfg) (N : Nat) (K : List (Nat × Nat)) (hK : K.length ≤ N) :
    ∀ (fs : List Frame) (S : SState), (∀ pgn src, S pgn src ≠ [] → (pgn, src) ∈ K) →
    (∀ f ∈ fs, (f.pgn, f.src) ∈ K) → Spec.Fits c N S fs
  | [], _, _, _ => trivial
  | f :: rest, S, hS, hfs => by
    refine ⟨fun _ => ⟨K, hK, hfs f (by simp), hS⟩, fits_of_few_keys c N K hK rest _ ?_ (fun x hx => hfs x (by simp [hx]))⟩
    intro pgn src h
    rcases step_keys (isFP c) S f pgn src h with h | h
    · exact hS pgn src h
    · rw [h]; exact hfs f (by simp)

end N2k.Rx
