/-! Prototype: fast-packet / single-frame reassembly (SetN2kCANBufMsg, FindFreeCANMsgIndex, CopyBufToCANMsg,
    deliver+free of ParseMessages) with ghost frame history, and the no-corruption invariant. -/
namespace Rx

structure Frame where
  prio : Nat
  pgn : Nat
  src : Nat
  dst : Nat
  len : Nat            -- DLC 0..8
  b : List Nat         -- 8 bytes
  deriving Repr

def Frame.byte (f : Frame) (i : Nat) : Nat := f.b.getD i 0

structure Slot where
  free : Bool
  pgn : Nat
  src : Nat
  dst : Nat
  prio : Nat
  tp : Bool
  lastFrame : Nat
  dataLen : Nat
  data : List Nat          -- CopiedLen = data.length
  msgTime : Nat
  hist : List Frame        -- GHOST: frames accepted into this slot (never read by the model)

structure Msg where
  prio : Nat
  pgn : Nat
  src : Nat
  dst : Nat
  len : Nat
  data : List Nat
  deriving Repr

def freeSlot (s : Slot) : Slot :=
  { s with free := true, pgn := 0, src := 0, dataLen := 0, msgTime := 0, hist := [] }

/-- CopyBufToCANMsg(msg, start, len, buf) -/
def copy (data : List Nat) (start : Nat) (f : Frame) : List Nat :=
  data ++ (((f.b.take f.len).drop start).take (223 - data.length))

def M32 : Nat := 4294967296
def isTimeBefore (t1 t2 : Nat) : Bool := (t2 + M32 - t1 % M32) % M32 < 2147483647
def hasElapsed (start el now : Nat) : Bool := (now + M32 - (start + el) % M32) % M32 < 2147483647

structure St where
  N : Nat
  slot : Nat → Slot

/-- first index i ≥ from (i < N) with p (slot i); N if none -/
def findFirst (st : St) (p : Slot → Bool) : Nat → Nat → Nat
  | 0, i => i
  | fuel+1, i => if i < st.N then (if p (st.slot i) then i else findFirst st p fuel (i+1)) else i

/-- the oldest-slot scan of FindFreeCANMsgIndex over slots [0, stop) -/
def oldest (st : St) (now : Nat) : Nat → Nat × Nat
  | 0 => (st.N, now % M32)
  | k+1 =>
    let (oi, ot) := oldest st now k
    if isTimeBefore (st.slot k).msgTime ot then (k, (st.slot k).msgTime % M32) else (oi, ot)

def findFree (st : St) (now pgn src dst : Nat) : Nat :=
  let i := findFirst st (fun s => s.free || (s.pgn == pgn && s.src == src && s.dst == dst && !s.tp)) st.N 0
  if i = st.N then
    let (oi, ot) := oldest st now st.N
    if hasElapsed ot 100 now then oi else st.N
  else i

def setSlot (st : St) (i : Nat) (s : Slot) : St := { st with slot := fun j => if j = i then s else st.slot j }

def msgOf (s : Slot) : Msg := ⟨s.prio, s.pgn, s.src, s.dst, s.dataLen, s.data⟩

/-- `Ready` test, then deliver + FreeMessage (ParseMessages) or keep the slot -/
def finish (st : St) (i : Nat) (s' : Slot) : St × Option Msg :=
  if s'.data.length ≥ s'.dataLen then (setSlot st i (freeSlot s'), some (msgOf s')) else (setSlot st i s', none)

def initSlot (old : Slot) (now : Nat) (f : Frame) (fp : Bool) : Slot :=
  let s0 : Slot := { old with free := false, pgn := f.pgn, src := f.src, dst := f.dst, prio := f.prio % 8,
                              tp := false, msgTime := now % M32, hist := [f] }
  if fp then { s0 with data := copy [] 2 f, lastFrame := f.byte 0, dataLen := f.byte 1 }
  else { s0 with data := copy [] 0 f, lastFrame := 0, dataLen := f.len }

/-- one received (non-TP) frame. Returns new state and the delivered message, if any. -/
def rx (isFP : Nat → Bool) (st : St) (now : Nat) (f : Frame) : St × Option Msg :=
  if isFP f.pgn && f.byte 0 % 32 != 0 then
    -- continuation frame
    let i := findFirst st (fun s => s.pgn == f.pgn && s.src == f.src && !s.tp) st.N 0
    if i < st.N then
      let s := st.slot i
      if s.lastFrame + 1 = f.byte 0 then
        finish st i { s with lastFrame := f.byte 0, data := copy s.data 1 f, hist := s.hist ++ [f] }
      else (setSlot st i (freeSlot s), none)
    else (st, none)
  else
    let i := findFree st now f.pgn f.src f.dst
    if i < st.N then finish st i (initSlot (st.slot i) now f (isFP f.pgn)) else (st, none)

/-! ### the witness -/

/-- payload bytes a frame contributes: first fast-packet frame from byte 2, later ones from byte 1 -/
def payloadOf (first : Bool) (f : Frame) : List Nat := (f.b.take f.len).drop (if first then 2 else 1)

def fpBytes : List Frame → List Nat
  | [] => []
  | f0 :: rest => payloadOf true f0 ++ rest.flatMap (payloadOf false)

/-- what it means for a busy fast-packet slot to be the image of its ghost history -/
structure FPWit (s : Slot) : Prop where
  ne : s.hist ≠ []
  same : ∀ f ∈ s.hist, f.pgn = s.pgn ∧ f.src = s.src
  first : ∀ f0, s.hist.head? = some f0 → f0.byte 0 % 32 = 0 ∧ s.dst = f0.dst ∧ s.prio = f0.prio % 8 ∧ s.dataLen = f0.byte 1
  ctr : ∀ f0, s.hist.head? = some f0 → ∀ k (hk : k < s.hist.length), (s.hist[k]).byte 0 = f0.byte 0 + k
  last : ∀ f0, s.hist.head? = some f0 → s.lastFrame = f0.byte 0 + (s.hist.length - 1)
  data : s.data = (fpBytes s.hist).take 223

def Inv (isFP : Nat → Bool) (st : St) : Prop :=
  ∀ i, i < st.N →
    ((st.slot i).free = true → (st.slot i).pgn = 0) ∧
    ((st.slot i).free = false → (st.slot i).tp = false → isFP (st.slot i).pgn = true → FPWit (st.slot i))


/-! ### lemmas -/

theorem findFirst_spec (st : St) (p : Slot → Bool) : ∀ (fuel i : Nat),
    findFirst st p fuel i < st.N → st.N ≤ i + fuel → p (st.slot (findFirst st p fuel i)) = true
  | 0, i, h, hb => by simp [findFirst] at h; omega
  | fuel+1, i, h, hb => by
    unfold findFirst at h ⊢
    by_cases hi : i < st.N
    · simp only [hi, ↓reduceIte] at h ⊢
      by_cases hp : p (st.slot i) = true
      · simp only [hp, ↓reduceIte]
      · simp only [hp] at h ⊢
        exact findFirst_spec st p fuel (i+1) h (by omega)
    · simp [hi] at h

theorem findFirst_found (st : St) (p : Slot → Bool) (h : findFirst st p st.N 0 < st.N) :
    p (st.slot (findFirst st p st.N 0)) = true :=
  findFirst_spec st p st.N 0 h (by omega)

theorem fpBytes_snoc (hist : List Frame) (hne : hist ≠ []) (f : Frame) :
    fpBytes (hist ++ [f]) = fpBytes hist ++ payloadOf false f := by
  cases hist with
  | nil => exact absurd rfl hne
  | cons f0 rest => simp [fpBytes, List.flatMap_append]

theorem copy_take (A B : List Nat) :
    (A.take 223) ++ (B.take (223 - (A.take 223).length)) = (A ++ B).take 223 := by
  rw [List.take_append]
  by_cases h : A.length ≤ 223
  · rw [List.take_of_length_le h]
  · have h1 : (A.take 223).length = 223 := by simp; omega
    have h2 : 223 - A.length = 0 := by omega
    simp [h1, h2]

theorem FPWit.snoc {s : Slot} (hw : FPWit s) (f : Frame) (hp : f.pgn = s.pgn) (hs : f.src = s.src)
    (hl : s.lastFrame + 1 = f.byte 0) :
    FPWit { s with lastFrame := f.byte 0, data := copy s.data 1 f, hist := s.hist ++ [f] } := by
  obtain ⟨ne, same, first, ctr, last, data⟩ := hw
  have hhead : (s.hist ++ [f]).head? = s.hist.head? := by
    cases h : s.hist with
    | nil => exact absurd h ne
    | cons a t => simp
  refine ⟨by simp, ?_, ?_, ?_, ?_, ?_⟩
  · intro g hg
    simp only [List.mem_append, List.mem_singleton] at hg
    rcases hg with hg | hg
    · exact same g hg
    · subst hg; exact ⟨hp, hs⟩
  · intro f0 h0; rw [hhead] at h0; exact first f0 h0
  · intro f0 h0 k hk
    rw [hhead] at h0
    simp only [List.length_append, List.length_singleton] at hk
    by_cases hk' : k < s.hist.length
    · rw [List.getElem_append_left hk']; exact ctr f0 h0 k hk'
    · have hke : k = s.hist.length := by omega
      subst hke
      simp only [List.getElem_append_right (Nat.le_refl _), Nat.sub_self, List.getElem_singleton]
      have := last f0 h0
      have hlen : 0 < s.hist.length := List.length_pos_iff.mpr ne
      omega
  · intro f0 h0
    rw [hhead] at h0
    have := last f0 h0
    have hlen : 0 < s.hist.length := List.length_pos_iff.mpr ne
    simp only [List.length_append, List.length_singleton]
    omega
  · show copy s.data 1 f = _
    unfold copy
    rw [fpBytes_snoc _ ne, data]
    exact copy_take _ _

theorem FPWit.init (f : Frame) (s : Slot) (h0 : f.byte 0 % 32 = 0)
    (hh : s.hist = [f]) (hp : s.pgn = f.pgn) (hs : s.src = f.src) (hd : s.dst = f.dst)
    (hpr : s.prio = f.prio % 8) (hdl : s.dataLen = f.byte 1) (hlf : s.lastFrame = f.byte 0)
    (hdata : s.data = copy [] 2 f) : FPWit s := by
  refine ⟨by simp [hh], ?_, ?_, ?_, ?_, ?_⟩
  · intro g hg; rw [hh] at hg; simp at hg; subst hg; exact ⟨hp.symm, hs.symm⟩
  · intro f0 hf0; rw [hh] at hf0; simp at hf0; subst hf0; exact ⟨h0, hd, hpr, hdl⟩
  · intro f0 hf0 k hk
    rw [hh] at hf0; simp at hf0; subst hf0
    simp only [hh, List.length_singleton] at hk
    have : k = 0 := by omega
    subst this; simp [hh]
  · intro f0 hf0; rw [hh] at hf0; simp at hf0; subst hf0; simp [hh, hlf]
  · rw [hdata, hh]; simp [copy, fpBytes, payloadOf]


/-! ### main theorems -/

def WFrame (f : Frame) : Prop := f.b.length = 8 ∧ f.len ≤ 8

/-- what a delivered message must be, in terms of received frames only -/
def Witness (isFP : Nat → Bool) (f : Frame) (m : Msg) (hist : List Frame) : Prop :=
  hist.getLast? = some f ∧
  ((isFP f.pgn = false ∧ hist = [f] ∧
      m = ⟨f.prio % 8, f.pgn, f.src, f.dst, f.len, f.b.take f.len⟩) ∨
   (isFP f.pgn = true ∧ (∀ g ∈ hist, g.pgn = m.pgn ∧ g.src = m.src) ∧
      (∀ f0, hist.head? = some f0 → f0.byte 0 % 32 = 0 ∧ m.dst = f0.dst ∧ m.prio = f0.prio % 8 ∧
          m.len = f0.byte 1 ∧ ∀ k (hk : k < hist.length), (hist[k]).byte 0 = f0.byte 0 + k) ∧
      m.data = (fpBytes hist).take 223 ∧ m.len ≤ m.data.length ∧ m.len ≤ 223))

theorem Inv.setSlot {isFP : Nat → Bool} {st : St} (hI : Inv isFP st) (i : Nat) (s : Slot)
    (h1 : s.free = true → s.pgn = 0)
    (h2 : s.free = false → s.tp = false → isFP s.pgn = true → FPWit s) :
    Inv isFP (setSlot st i s) := by
  intro j hj
  have hj' : j < st.N := hj
  by_cases hji : j = i
  · have : (Rx.setSlot st i s).slot j = s := by simp [Rx.setSlot, hji]
    rw [this]; exact ⟨h1, h2⟩
  · have : (Rx.setSlot st i s).slot j = st.slot j := by simp [Rx.setSlot, hji]
    rw [this]; exact hI j hj'

theorem freeSlot_ok (isFP : Nat → Bool) (s : Slot) :
    ((freeSlot s).free = true → (freeSlot s).pgn = 0) ∧
    ((freeSlot s).free = false → (freeSlot s).tp = false → isFP (freeSlot s).pgn = true → FPWit (freeSlot s)) :=
  ⟨fun _ => rfl, fun h => by cases h⟩

theorem copy_len_le (data : List Nat) (start : Nat) (f : Frame) (h : data.length ≤ 223) :
    (copy data start f).length ≤ 223 := by
  unfold copy; simp; omega

theorem copy_single (f : Frame) (hf : WFrame f) : copy [] 0 f = f.b.take f.len := by
  unfold copy
  simp only [List.nil_append, List.length_nil, Nat.sub_zero, List.drop_zero]
  apply List.take_of_length_le
  rw [List.length_take]; have := hf.1; have := hf.2; omega

/-- deliver-or-store for a fast-packet slot that is the image of its history -/
theorem finish_fp (isFP : Nat → Bool) (st : St) (hI : Inv isFP st) (i : Nat) (s' : Slot) (f : Frame)
    (hfree : s'.free = false) (hw : FPWit s') (hlast : s'.hist.getLast? = some f)
    (hfp : isFP f.pgn = true) :
    Inv isFP (finish st i s').1 ∧ ∀ m, (finish st i s').2 = some m → ∃ hist, Witness isFP f m hist := by
  unfold finish
  split
  · rename_i hready
    refine ⟨hI.setSlot i _ (freeSlot_ok isFP _).1 (freeSlot_ok isFP _).2, ?_⟩
    intro m hm
    simp only [Option.some.injEq] at hm
    subst hm
    refine ⟨s'.hist, hlast, Or.inr ⟨hfp, hw.same, ?_, hw.data, hready, ?_⟩⟩
    · intro f0 hf0
      obtain ⟨a, b, c, d⟩ := hw.first f0 hf0
      exact ⟨a, b, c, d, hw.ctr f0 hf0⟩
    · have : s'.data.length ≤ 223 := by rw [hw.data, List.length_take]; exact Nat.min_le_left _ _
      simp only [msgOf]; omega
  · refine ⟨hI.setSlot i _ (by intro h; rw [hfree] at h; cases h) (fun _ _ _ => hw), ?_⟩
    intro m hm; cases hm

theorem rx_spec (isFP : Nat → Bool) (h0 : isFP 0 = false) (st : St) (hI : Inv isFP st)
    (now : Nat) (f : Frame) (hf : WFrame f) :
    Inv isFP (rx isFP st now f).1 ∧
    ∀ m, (rx isFP st now f).2 = some m → ∃ hist, Witness isFP f m hist := by
  unfold rx
  by_cases hc : (isFP f.pgn && f.byte 0 % 32 != 0) = true
  · -- continuation
    simp only [hc, ↓reduceIte]
    simp only [Bool.and_eq_true, bne_iff_ne, ne_eq] at hc
    obtain ⟨hfp, hb0⟩ := hc
    generalize hidx : findFirst st (fun s => s.pgn == f.pgn && s.src == f.src && !s.tp) st.N 0 = i
    by_cases hi : i < st.N
    · simp only [hi, ↓reduceIte]
      have hfound := findFirst_found st (fun s => s.pgn == f.pgn && s.src == f.src && !s.tp) (hidx ▸ hi)
      rw [hidx] at hfound
      simp only [Bool.and_eq_true, beq_iff_eq, Bool.not_eq_true'] at hfound
      obtain ⟨⟨hpg, hsr⟩, htp⟩ := hfound
      have hnf : (st.slot i).free = false := by
        cases hfr : (st.slot i).free with
        | false => rfl
        | true =>
          have := (hI i hi).1 hfr
          rw [this] at hpg; rw [← hpg] at hfp; rw [h0] at hfp; cases hfp
      have hw : FPWit (st.slot i) := (hI i hi).2 hnf htp (by rw [hpg]; exact hfp)
      by_cases hl : (st.slot i).lastFrame + 1 = f.byte 0
      · simp only [hl, ↓reduceIte]
        exact finish_fp isFP st hI i _ f hnf (hw.snoc f hpg.symm hsr.symm hl) (by simp) hfp
      · simp only [hl, ↓reduceIte]
        refine ⟨hI.setSlot i _ (freeSlot_ok isFP _).1 (freeSlot_ok isFP _).2, ?_⟩
        intro m hm; cases hm
    · simp only [hi, ↓reduceIte]
      exact ⟨hI, fun m hm => by cases hm⟩
  · -- first / single frame
    simp only [hc, Bool.false_eq_true, ↓reduceIte]
    generalize findFree st now f.pgn f.src f.dst = i
    by_cases hi : i < st.N
    · simp only [hi, ↓reduceIte]
      cases hfp : isFP f.pgn with
      | false =>
        unfold finish initSlot
        simp only [Bool.false_eq_true, ↓reduceIte]
        have hlen : (copy [] 0 f).length = f.len := by
          rw [copy_single f hf, List.length_take]; have := hf.1; have := hf.2; omega
        simp only [hlen, ge_iff_le, Nat.le_refl, ↓reduceIte]
        refine ⟨hI.setSlot i _ (freeSlot_ok isFP _).1 (freeSlot_ok isFP _).2, ?_⟩
        intro m hm
        simp only [Option.some.injEq] at hm
        subst hm
        exact ⟨[f], by simp, Or.inl ⟨hfp, rfl, by simp [msgOf, copy_single f hf]⟩⟩
      | true =>
        have hb0 : f.byte 0 % 32 = 0 := by
          simp only [hfp, Bool.true_and, bne_iff_ne, ne_eq, Bool.not_eq_true, Decidable.not_not] at hc
          simpa using hc
        have hw : FPWit (initSlot (st.slot i) now f true) :=
          FPWit.init f _ hb0 rfl rfl rfl rfl rfl rfl rfl rfl
        exact finish_fp isFP st hI i _ f rfl hw (by simp [initSlot]) hfp
    · simp only [hi, ↓reduceIte]
      exact ⟨hI, fun m hm => by cases hm⟩

#print axioms rx_spec
end Rx
